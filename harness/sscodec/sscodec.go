// Package sscodec is an independent implementation of the Shadowsocks AEAD wire
// format (client side), written for the verification harness. It shares no code
// with outline-sdk/outline-ss-server: only Go's crypto primitives.
package sscodec

import (
	"crypto/aes"
	"crypto/cipher"
	"crypto/md5"
	"crypto/sha1"
	"encoding/binary"
	"errors"
	"fmt"
	"io"
	"net"
	"strconv"

	"golang.org/x/crypto/chacha20poly1305"
	"golang.org/x/crypto/hkdf"
)

// Cipher describes one supported AEAD method.
type Cipher struct {
	Name     string
	KeySize  int
	SaltSize int
	newAEAD  func(key []byte) (cipher.AEAD, error)
}

const TagSize = 16

func gcm(key []byte) (cipher.AEAD, error) {
	b, err := aes.NewCipher(key)
	if err != nil {
		return nil, err
	}
	return cipher.NewGCM(b)
}

var Ciphers = []*Cipher{
	{"chacha20-ietf-poly1305", 32, 32, chacha20poly1305.New},
	{"aes-256-gcm", 32, 32, gcm},
	{"aes-192-gcm", 24, 24, gcm},
	{"aes-128-gcm", 16, 16, gcm},
}

func CipherByName(n string) *Cipher {
	for _, c := range Ciphers {
		if c.Name == n {
			return c
		}
	}
	return nil
}

// Key is a (cipher, secret) pair with the derived master key.
type Key struct {
	C      *Cipher
	Secret string
	master []byte
}

func NewKey(c *Cipher, secret string) *Key {
	// EVP_BytesToKey with MD5, no salt, one iteration.
	var d, prev []byte
	for len(d) < c.KeySize {
		h := md5.New()
		h.Write(prev)
		h.Write([]byte(secret))
		prev = h.Sum(nil)
		d = append(d, prev...)
	}
	return &Key{C: c, Secret: secret, master: d[:c.KeySize]}
}

func (k *Key) aead(salt []byte) cipher.AEAD {
	sub := make([]byte, k.C.KeySize)
	r := hkdf.New(sha1.New, k.master, salt, []byte("ss-subkey"))
	if _, err := io.ReadFull(r, sub); err != nil {
		panic(err)
	}
	a, err := k.C.newAEAD(sub)
	if err != nil {
		panic(err)
	}
	return a
}

func incr(n []byte) {
	for i := range n {
		n[i]++
		if n[i] != 0 {
			return
		}
	}
}

// ---- SOCKS addresses ----

// AddrIP encodes an IP:port as SOCKS type 1 or 4. If force6 is set a v4 address is
// written as type 4 in IPv4-mapped form.
func AddrIP(ip net.IP, port int, force6 bool) []byte {
	var b []byte
	if v4 := ip.To4(); v4 != nil && !force6 {
		b = append([]byte{1}, v4...)
	} else {
		b = append([]byte{4}, ip.To16()...)
	}
	return append(b, byte(port>>8), byte(port))
}

// AddrDomain encodes a domain-name address (type 3). The name may be empty or any bytes.
func AddrDomain(name string, port int) []byte {
	b := []byte{3, byte(len(name))}
	b = append(b, name...)
	return append(b, byte(port>>8), byte(port))
}

// ParseAddr decodes a SOCKS address at the start of b, returning host, port and its length.
func ParseAddr(b []byte) (typ byte, host string, port int, n int, err error) {
	if len(b) < 1 {
		return 0, "", 0, 0, errors.New("empty")
	}
	switch b[0] {
	case 1:
		if len(b) < 7 {
			return 1, "", 0, 0, errors.New("short v4")
		}
		return 1, net.IP(b[1:5]).String(), int(binary.BigEndian.Uint16(b[5:7])), 7, nil
	case 4:
		if len(b) < 19 {
			return 4, "", 0, 0, errors.New("short v6")
		}
		return 4, net.IP(b[1:17]).String(), int(binary.BigEndian.Uint16(b[17:19])), 19, nil
	case 3:
		if len(b) < 2 || len(b) < 2+int(b[1])+2 {
			return 3, "", 0, 0, errors.New("short domain")
		}
		l := int(b[1])
		return 3, string(b[2 : 2+l]), int(binary.BigEndian.Uint16(b[2+l : 4+l])), 4 + l, nil
	}
	return b[0], "", 0, 0, fmt.Errorf("bad type %d", b[0])
}

func HostPort(host string, port int) string { return net.JoinHostPort(host, strconv.Itoa(port)) }

// ---- TCP stream encoder ----

// StreamEncoder produces the client->server byte stream.
type StreamEncoder struct {
	k     *Key
	Salt  []byte
	a     cipher.AEAD
	nonce []byte
	first bool
}

// NewStreamEncoder uses the given salt (len must equal the cipher's salt size).
func NewStreamEncoder(k *Key, salt []byte) *StreamEncoder {
	if len(salt) != k.C.SaltSize {
		panic("bad salt size")
	}
	return &StreamEncoder{k: k, Salt: append([]byte(nil), salt...), a: k.aead(salt), nonce: make([]byte, 12), first: true}
}

// Chunk encodes one chunk (len(p) <= 0x3FFF). The salt is prepended to the first chunk.
// lenField, when >= 0, overrides the 16-bit length field written (e.g. reserved bits set).
func (e *StreamEncoder) Chunk(p []byte, lenField int) []byte {
	if len(p) > 0x3FFF {
		panic("chunk too large")
	}
	var out []byte
	if e.first {
		out = append(out, e.Salt...)
		e.first = false
	}
	lf := len(p)
	if lenField >= 0 {
		lf = lenField
	}
	lb := []byte{byte(lf >> 8), byte(lf)}
	out = e.a.Seal(out, e.nonce, lb, nil)
	incr(e.nonce)
	out = e.a.Seal(out, e.nonce, p, nil)
	incr(e.nonce)
	return out
}

// Encode splits data into chunks of the given sizes (cycled; sizes of 0 emit empty chunks).
func (e *StreamEncoder) Encode(data []byte, sizes []int) []byte {
	var out []byte
	i := 0
	if len(sizes) == 0 {
		sizes = []int{0x3FFF}
	}
	for len(data) > 0 {
		s := sizes[i%len(sizes)]
		i++
		if s > len(data) {
			s = len(data)
		}
		out = append(out, e.Chunk(data[:s], -1)...)
		data = data[s:]
	}
	return out
}

// ---- TCP stream decoder (server->client) ----

type StreamDecoder struct {
	k      *Key
	r      io.Reader
	Salt   []byte
	a      cipher.AEAD
	nonce  []byte
	Chunks int
}

func NewStreamDecoder(k *Key, r io.Reader) *StreamDecoder {
	return &StreamDecoder{k: k, r: r, nonce: make([]byte, 12)}
}

// ErrAuth is returned when a tag does not verify.
var ErrAuth = errors.New("sscodec: authentication failed")

// ReadChunk returns the next decrypted chunk, io.EOF at a clean end (before a chunk).
func (d *StreamDecoder) ReadChunk() ([]byte, error) {
	if d.a == nil {
		salt := make([]byte, d.k.C.SaltSize)
		if _, err := io.ReadFull(d.r, salt); err != nil {
			return nil, err
		}
		d.Salt = salt
		d.a = d.k.aead(salt)
	}
	lb := make([]byte, 2+TagSize)
	if _, err := io.ReadFull(d.r, lb); err != nil {
		return nil, err
	}
	pl, err := d.a.Open(nil, d.nonce, lb, nil)
	if err != nil {
		return nil, ErrAuth
	}
	incr(d.nonce)
	n := int(binary.BigEndian.Uint16(pl))
	if n > 0x3FFF {
		return nil, fmt.Errorf("sscodec: length field %#x has reserved bits", n)
	}
	buf := make([]byte, n+TagSize)
	if _, err := io.ReadFull(d.r, buf); err != nil {
		if err == io.EOF {
			err = io.ErrUnexpectedEOF
		}
		return nil, err
	}
	p, err := d.a.Open(nil, d.nonce, buf, nil)
	if err != nil {
		return nil, ErrAuth
	}
	incr(d.nonce)
	d.Chunks++
	return p, nil
}

// ---- UDP ----

// PackUDP builds [salt][AEAD(plaintext)] with an all-zero nonce.
func PackUDP(k *Key, salt, plaintext []byte) []byte {
	if len(salt) != k.C.SaltSize {
		panic("bad salt size")
	}
	out := append([]byte(nil), salt...)
	return k.aead(salt).Seal(out, make([]byte, 12), plaintext, nil)
}

// UnpackUDP opens a datagram; returns salt and plaintext.
func UnpackUDP(k *Key, pkt []byte) (salt, plaintext []byte, err error) {
	if len(pkt) < k.C.SaltSize+TagSize {
		return nil, nil, errors.New("sscodec: short packet")
	}
	salt = pkt[:k.C.SaltSize]
	p, err := k.aead(salt).Open(nil, make([]byte, 12), pkt[k.C.SaltSize:], nil)
	if err != nil {
		return salt, nil, ErrAuth
	}
	return salt, p, nil
}
