// verifcheck is the single harness binary: driver (`run`) and per-batch child (`child`).
package main

import (
	"os"

	_ "verifharness/props"
	"verifharness/vk"
)

func main() {
	os.Exit(vk.Main(os.Args[1:]))
}
