// verifsweep enumerates a range of the IPv4 space against the destination validator.
// It is built WITHOUT the race detector (the validator is a pure function; with -race the
// 2^32 sweep would take hours) and is run by the C05 check's thorough tier.
package main

import (
	"fmt"
	"os"
	"strconv"

	"verifharness/props"
)

func main() {
	if len(os.Args) != 3 {
		fmt.Fprintln(os.Stderr, "usage: verifsweep <lo> <hi>")
		os.Exit(2)
	}
	lo, _ := strconv.ParseUint(os.Args[1], 10, 64)
	hi, _ := strconv.ParseUint(os.Args[2], 10, 64)
	n, bad := props.SweepIPv4(lo, hi)
	if bad != "" {
		fmt.Println("DISAGREE " + bad)
		os.Exit(1)
	}
	fmt.Printf("OK %d\n", n)
}
