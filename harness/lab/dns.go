package lab

import (
	"encoding/binary"
	"net"
	"strings"
	"sync"
)

// DNSAnswer is what the script returns for one query.
type DNSAnswer struct {
	IPs   []net.IP // A records for qtype 1 (v4 entries), AAAA for qtype 28 (v6 entries)
	RCode int      // 0 ok, 3 NXDOMAIN, 2 SERVFAIL
}

// DNS is a scripted recording DNS server on 127.0.0.1:53 (UDP).
type DNS struct {
	pc     *net.UDPConn
	mu     sync.Mutex
	Script func(name string, qtype uint16, nth int) DNSAnswer
	count  map[string]int
	Log    []string
}

func StartDNS() (*DNS, error) {
	pc, err := net.ListenUDP("udp4", &net.UDPAddr{IP: net.IPv4(127, 0, 0, 1), Port: 53})
	if err != nil {
		return nil, err
	}
	d := &DNS{pc: pc, count: map[string]int{}}
	go d.serve()
	return d, nil
}

func (d *DNS) SetScript(f func(name string, qtype uint16, nth int) DNSAnswer) {
	d.mu.Lock()
	d.Script = f
	d.mu.Unlock()
}

func (d *DNS) Close() { d.pc.Close() }

// Queries returns how many queries (any type) were seen for name.
func (d *DNS) Queries(name string) int {
	d.mu.Lock()
	defer d.mu.Unlock()
	return d.count[strings.ToLower(name)+"/1"] + d.count[strings.ToLower(name)+"/28"]
}

func (d *DNS) serve() {
	buf := make([]byte, 1500)
	for {
		n, from, err := d.pc.ReadFromUDP(buf)
		if err != nil {
			return
		}
		if n < 12 {
			continue
		}
		q := buf[:n]
		// parse the question
		off := 12
		var labels []string
		for off < n && q[off] != 0 {
			l := int(q[off])
			if off+1+l > n {
				break
			}
			labels = append(labels, string(q[off+1:off+1+l]))
			off += 1 + l
		}
		if off+5 > n {
			continue
		}
		qend := off + 5
		qtype := binary.BigEndian.Uint16(q[off+1 : off+3])
		name := strings.ToLower(strings.Join(labels, "."))
		d.mu.Lock()
		key := name + "/" + itoa(int(qtype))
		nth := d.count[key]
		d.count[key]++
		script := d.Script
		if len(d.Log) < 5000 {
			d.Log = append(d.Log, key)
		}
		d.mu.Unlock()
		ans := DNSAnswer{RCode: 3}
		if script != nil {
			ans = script(name, qtype, nth)
		}
		resp := make([]byte, 0, 512)
		resp = append(resp, q[0], q[1], 0x81, 0x80|byte(ans.RCode&0xf), 0, 1, 0, 0, 0, 0, 0, 0)
		resp = append(resp, q[12:qend]...)
		an := 0
		for _, ip := range ans.IPs {
			var rd []byte
			if v4 := ip.To4(); v4 != nil && qtype == 1 {
				rd = v4
			} else if v4 == nil && qtype == 28 {
				rd = ip.To16()
			} else {
				continue
			}
			resp = append(resp, 0xC0, 0x0C, byte(qtype>>8), byte(qtype), 0, 1, 0, 0, 0, 0, byte(len(rd)>>8), byte(len(rd)))
			resp = append(resp, rd...)
			an++
		}
		resp[6], resp[7] = byte(an>>8), byte(an)
		d.pc.WriteToUDP(resp, from)
	}
}

func itoa(n int) string {
	if n == 0 {
		return "0"
	}
	s := ""
	for n > 0 {
		s = string(rune('0'+n%10)) + s
		n /= 10
	}
	return s
}
