// Package lab configures the private network namespace a check child runs in and
// provides the boundary monitors shared by the property checks: scripted DNS,
// recording targets/sinks, socket and goroutine leak monitors.
package lab

import (
	"bytes"
	"fmt"
	"net"
	"os"
	"os/exec"
	"path/filepath"
	"regexp"
	"runtime"
	"runtime/pprof"
	"sort"
	"strings"
	"sync"
	"time"
)

func sh(args ...string) error {
	cmd := exec.Command(args[0], args[1:]...)
	out, err := cmd.CombinedOutput()
	if err != nil {
		return fmt.Errorf("%v: %v: %s", args, err, out)
	}
	return nil
}

var setupOnce sync.Once
var setupErr error

// Setup turns the fresh network namespace of this process into the lab:
//   - lo is up and EVERY IPv4 and IPv6 address is local ("AnyIP": `local default dev lo`),
//     so that whatever address the server contacts, a sink bound to the wildcard
//     address (or to that address) receives it, and clients may bind any source address;
//   - a veth pair (vlab0/vlab1) provides zoned IPv6 link-local addresses;
//   - /etc/resolv.conf points to 127.0.0.1 (bind mount in the private mount namespace),
//     where the check runs its scripted DNS server.
func Setup(dir string) error {
	setupOnce.Do(func() {
		// Refuse to reconfigure a namespace that is not private (has a non-loopback interface).
		ifs, _ := net.Interfaces()
		for _, i := range ifs {
			if i.Flags&net.FlagLoopback == 0 && !strings.HasPrefix(i.Name, "vlab") {
				setupErr = fmt.Errorf("lab.Setup: not in a private network namespace (interface %s present)", i.Name)
				return
			}
		}
		steps := [][]string{
			{"ip", "link", "set", "lo", "up"},
			{"ip", "route", "add", "local", "0.0.0.0/0", "dev", "lo"},
			{"ip", "-6", "route", "add", "local", "::/0", "dev", "lo"},
			// public-looking addresses that cannot be reached (connects fail at once with EHOSTUNREACH)
			{"ip", "route", "add", "unreachable", "45.99.99.0/24", "table", "local"},
			{"ip", "-6", "route", "add", "unreachable", "2606:4700:99::/48", "table", "local"},
			{"sysctl", "-qw", "net.ipv4.ip_nonlocal_bind=1", "net.ipv6.ip_nonlocal_bind=1"},
			{"sysctl", "-qw", "net.ipv4.ip_local_port_range=20000 60999"},
			{"sysctl", "-qw", "net.core.somaxconn=4096", "net.ipv4.tcp_max_syn_backlog=4096"},
			{"sysctl", "-qw", "net.ipv4.tcp_fin_timeout=5", "net.ipv4.tcp_tw_reuse=1"},
			{"ip", "link", "add", "vlab0", "type", "veth", "peer", "name", "vlab1"},
			{"sysctl", "-qw", "net.ipv6.conf.vlab0.accept_dad=0", "net.ipv6.conf.vlab1.accept_dad=0"},
			{"ip", "link", "set", "vlab0", "up"},
			{"ip", "link", "set", "vlab1", "up"},
			// the same link-local address on both ends: two distinct clients that differ only by zone
			{"ip", "-6", "addr", "add", "fe80::c4/64", "dev", "vlab0", "nodad"},
			{"ip", "-6", "addr", "add", "fe80::c4/64", "dev", "vlab1", "nodad"},
		}
		for _, s := range steps {
			if err := sh(s...); err != nil {
				setupErr = err
				return
			}
		}
		resolv := filepath.Join(dir, "resolv.conf")
		if err := os.WriteFile(resolv, []byte("nameserver 127.0.0.1\noptions timeout:2 attempts:1\n"), 0o644); err != nil {
			setupErr = err
			return
		}
		if err := sh("mount", "--bind", resolv, "/etc/resolv.conf"); err != nil {
			setupErr = err
			return
		}
		hosts := filepath.Join(dir, "hosts")
		os.WriteFile(hosts, []byte("127.0.0.1 localhost\n::1 localhost\n"), 0o644)
		if err := sh("mount", "--bind", hosts, "/etc/hosts"); err != nil {
			setupErr = err
			return
		}
	})
	return setupErr
}

// MustSetup panics (a crash of the child = a broken check, reported loudly) if the lab cannot be built.
func MustSetup(dir string) {
	if err := Setup(dir); err != nil {
		fmt.Fprintln(os.Stderr, "LAB SETUP FAILED:", err)
		os.Exit(3)
	}
}

// LinkLocal returns the zoned link-local addresses of the veth pair ends
// (e.g. "fe80::a%vlab0", "fe80::b%vlab1"); waits for them to leave the tentative state.
func LinkLocal() (a0, a1 *net.UDPAddr, err error) {
	get := func(name string) *net.UDPAddr {
		ifi, err := net.InterfaceByName(name)
		if err != nil {
			return nil
		}
		addrs, _ := ifi.Addrs()
		for _, a := range addrs {
			if ipn, ok := a.(*net.IPNet); ok && ipn.IP.To4() == nil && ipn.IP.IsLinkLocalUnicast() && !ipn.IP.Equal(net.ParseIP("fe80::c4")) {
				return &net.UDPAddr{IP: ipn.IP, Zone: name}
			}
		}
		return nil
	}
	for i := 0; i < 100; i++ {
		a0, a1 = get("vlab0"), get("vlab1")
		if a0 != nil && a1 != nil {
			// Try to bind: fails while the address is tentative.
			pc, err := net.ListenUDP("udp6", &net.UDPAddr{IP: a0.IP, Zone: a0.Zone})
			if err == nil {
				pc.Close()
				return a0, a1, nil
			}
		}
		time.Sleep(50 * time.Millisecond)
	}
	return nil, nil, fmt.Errorf("no usable link-local addresses on vlab0/vlab1")
}

// ---- goroutine and fd monitors ----

var reGoroutineHdr = regexp.MustCompile(`(?m)^goroutine \d+ \[([^\]]*)\]:$`)

// GoroutineStacks returns the stacks (debug=2 text) of all goroutines that have a
// frame whose function contains any of the given substrings.
func GoroutineStacks(substrs ...string) []string {
	var buf bytes.Buffer
	pprof.Lookup("goroutine").WriteTo(&buf, 2)
	var out []string
	for _, g := range strings.Split(buf.String(), "\n\n") {
		for _, s := range substrs {
			if strings.Contains(g, s) {
				out = append(out, g)
				break
			}
		}
	}
	return out
}

// WaitNoGoroutines waits until no goroutine has a frame containing any substr,
// except those whose stack also contains one of `except`. Returns the leftovers.
func WaitNoGoroutines(within time.Duration, substrs []string, except []string) []string {
	deadline := time.Now().Add(within)
	for {
		var left []string
		for _, g := range GoroutineStacks(substrs...) {
			skip := false
			for _, e := range except {
				if strings.Contains(g, e) {
					skip = true
				}
			}
			if !skip {
				left = append(left, g)
			}
		}
		if len(left) == 0 || time.Now().After(deadline) {
			return left
		}
		time.Sleep(20 * time.Millisecond)
		runtime.Gosched()
	}
}

// FDs lists the open file descriptors of this process as "fd -> target".
func FDs(pid int) map[string]string {
	out := map[string]string{}
	dir := fmt.Sprintf("/proc/%d/fd", pid)
	ents, err := os.ReadDir(dir)
	if err != nil {
		return out
	}
	for _, e := range ents {
		t, err := os.Readlink(filepath.Join(dir, e.Name()))
		if err == nil {
			out[e.Name()] = t
		}
	}
	return out
}

// SocketFDCount counts descriptors that are sockets.
func SocketFDCount(pid int) int {
	n := 0
	for _, t := range FDs(pid) {
		if strings.HasPrefix(t, "socket:") {
			n++
		}
	}
	return n
}

// SocketInodes returns the socket inodes held by pid.
func SocketInodes(pid int) map[string]bool {
	out := map[string]bool{}
	for _, t := range FDs(pid) {
		if strings.HasPrefix(t, "socket:[") {
			out[strings.TrimSuffix(strings.TrimPrefix(t, "socket:["), "]")] = true
		}
	}
	return out
}

// ProcSocket is one row of /proc/net/{tcp,udp}{,6}.
type ProcSocket struct {
	Proto  string // tcp, tcp6, udp, udp6
	Local  string // ip:port
	Remote string
	State  string // hex
	Inode  string
	Drops  int64 // datagrams the kernel dropped at this socket (UDP only)
}

func parseHexAddr(s string) string {
	i := strings.LastIndex(s, ":")
	if i < 0 {
		return s
	}
	h, p := s[:i], s[i+1:]
	var port int
	fmt.Sscanf(p, "%x", &port)
	b := make([]byte, len(h)/2)
	for j := 0; j < len(b); j++ {
		fmt.Sscanf(h[2*j:2*j+2], "%02x", &b[j])
	}
	// /proc prints each 32-bit word in host (little-endian) order.
	for w := 0; w+4 <= len(b); w += 4 {
		b[w], b[w+1], b[w+2], b[w+3] = b[w+3], b[w+2], b[w+1], b[w]
	}
	return net.JoinHostPort(net.IP(b).String(), fmt.Sprint(port))
}

// ProcNet reads the socket tables of the current network namespace.
func ProcNet() []ProcSocket {
	var out []ProcSocket
	for _, proto := range []string{"tcp", "tcp6", "udp", "udp6"} {
		b, err := os.ReadFile("/proc/net/" + proto)
		if err != nil {
			continue
		}
		lines := strings.Split(string(b), "\n")
		for _, l := range lines[1:] {
			f := strings.Fields(l)
			if len(f) < 10 {
				continue
			}
			ps := ProcSocket{Proto: proto, Local: parseHexAddr(f[1]), Remote: parseHexAddr(f[2]), State: f[3], Inode: f[9]}
			if strings.HasPrefix(proto, "udp") && len(f) >= 13 {
				fmt.Sscan(f[12], &ps.Drops)
			}
			out = append(out, ps)
		}
	}
	return out
}

// ListeningOf returns the sorted listening TCP sockets ("tcp ip:port") and bound UDP
// sockets ("udp ip:port") owned by pid.
func ListeningOf(pid int) []string {
	inodes := SocketInodes(pid)
	var out []string
	for _, s := range ProcNet() {
		if !inodes[s.Inode] {
			continue
		}
		if strings.HasPrefix(s.Proto, "tcp") && s.State == "0A" {
			out = append(out, "tcp "+s.Local)
		}
		if strings.HasPrefix(s.Proto, "udp") {
			out = append(out, "udp "+s.Local)
		}
	}
	sort.Strings(out)
	return out
}

// UDPDrops returns the kernel's drop counter of the UDP socket(s) bound to local ("ip:port").
func UDPDrops(local string) int64 {
	var n int64
	for _, s := range ProcNet() {
		_, lp, _ := net.SplitHostPort(local)
		_, sp, _ := net.SplitHostPort(s.Local)
		if strings.HasPrefix(s.Proto, "udp") && lp == sp { // by port: the listener may be bound to the wildcard address
			n += s.Drops
		}
	}
	return n
}
