module verifharness

go 1.21

require (
	github.com/Jigsaw-Code/outline-ss-server v0.0.0
	github.com/anishathalye/porcupine v1.3.0
)

replace github.com/Jigsaw-Code/outline-ss-server => /repo
