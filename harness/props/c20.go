package props

import (
	"encoding/binary"
	"fmt"
	"math/rand"
	"net"
	"strconv"
	"strings"
	"time"

	"github.com/Jigsaw-Code/outline-ss-server/ipinfo"
	oprom "github.com/Jigsaw-Code/outline-ss-server/prometheus"
	"github.com/Jigsaw-Code/outline-ss-server/service/metrics"
	"github.com/prometheus/client_golang/prometheus"
	dto "github.com/prometheus/client_model/go"

	"verifharness/vk"
)

// C20: metrics never expose client addresses; locations are labelled by address class.

func c20Lookup(c *vk.Ctx) {
	r := c.Rng
	db := &fakeDB{}
	n := c.N(30000, 200000)
	zonedVerdict := ""
	for i := 0; i < n; i++ {
		dbOn := r.Intn(5) != 0
		var m ipinfo.IPInfoMap
		if dbOn {
			m = db
		}
		switch r.Intn(12) {
		case 0: // nil / malformed addresses
			var addr net.Addr
			var cls string
			switch r.Intn(11) {
			case 7:
				addr, cls = strAddr(fmt.Sprintf("::1:%d", 40000+r.Intn(999))), "ipv6-and-port-without-brackets"
			case 8:
				addr, cls = strAddr(fmt.Sprintf("2001:db8::%x:%d", 1+r.Intn(0xffe), 40000+r.Intn(999))), "ipv6-and-port-without-brackets"
			case 9:
				addr, cls = strAddr(pick(r, []string{"[::1:80", "2001:db8::9]:80", "[2606:4700::1:443"})), "unbalanced-brackets"
			case 10:
				addr, cls = strAddr(pick(r, []string{"[[::1]]:80", "[[2606:4700::1]]:443"})), "doubled-brackets"
			case 0:
				addr, cls = nil, "nil-addr"
			case 1:
				addr, cls = strAddr("not-an-address"), "no-port"
			case 2:
				addr, cls = strAddr("198.51.100.7"), "ip-without-port"
			case 3:
				addr, cls = strAddr("example.com:443"), "hostname"
			case 4:
				addr, cls = strAddr("[2001:db8::1"), "broken-bracket"
			case 5:
				addr, cls = strAddr(":80"), "empty-host"
			default:
				addr, cls = strAddr("999.1.1.1:80"), "bad-octet"
			}
			info, _ := ipinfo.GetIPInfoFromAddr(m, addr)
			calls := db.takeCalls()
			c.Eval(fmt.Sprintf("lookup|malformed/%s|db=%v", cls, dbOn))
			if info.CountryCode != "XA" || len(calls) != 0 {
				c.Violation("C20/unparseable-address-label", map[string]any{"addr": remoteStr(addr), "label": info.CountryCode, "db_calls": calls, "db_enabled": dbOn})
				return
			}
			c.Count("lookup_unparseable", 1)
		case 1: // zoned literal: link-local, but the parser rejects zones -> XA or XL, consistently, no db
			zone := pick(r, []string{"eth0", "lo", "1", "veth-long-name0"})
			ip := make(net.IP, 16)
			r.Read(ip)
			ip[0], ip[1] = 0xfe, 0x80
			if r.Intn(3) == 0 {
				ip[0], ip[1] = 0x20, 0x01 // a zone on a global address: still not an address the parser accepts
			}
			var addr net.Addr = &net.TCPAddr{IP: ip, Port: 443, Zone: zone}
			if r.Intn(2) == 0 {
				addr = &net.UDPAddr{IP: ip, Port: 443, Zone: zone}
			}
			info, _ := ipinfo.GetIPInfoFromAddr(m, addr)
			calls := db.takeCalls()
			c.Eval(fmt.Sprintf("lookup|zoned-link-local|db=%v", dbOn))
			got := string(info.CountryCode)
			okLabel := got == "XA" || (dbOn && got == "XL") || (!dbOn && got == "")
			if !okLabel || len(calls) != 0 {
				c.Violation("C20/zoned-address-label", map[string]any{"addr": addr.String(), "label": got, "db_calls": calls})
				return
			}
			key := fmt.Sprintf("%v:%s", dbOn, got)
			if dbOn {
				if zonedVerdict == "" {
					zonedVerdict = key
				} else if zonedVerdict != key {
					c.Violation("C20/zoned-address-label-inconsistent", map[string]any{"first": zonedVerdict, "now": key})
					return
				}
			}
			c.Count("lookup_zoned", 1)
		default:
			ip, cls := genIP(r)
			port := 1 + r.Intn(65535)
			var info ipinfo.IPInfo
			via := ""
			switch r.Intn(4) {
			case 0:
				info, _ = ipinfo.GetIPInfoFromIP(m, ip)
				via = "FromIP"
			case 1:
				info, _ = ipinfo.GetIPInfoFromAddr(m, &net.TCPAddr{IP: ip, Port: port})
				via = "TCPAddr"
			case 2:
				info, _ = ipinfo.GetIPInfoFromAddr(m, &net.UDPAddr{IP: ip, Port: port})
				via = "UDPAddr"
			default:
				info, _ = ipinfo.GetIPInfoFromAddr(m, strAddr(net.JoinHostPort(ip.String(), strconv.Itoa(port))))
				via = "string"
			}
			calls := db.takeCalls()
			want, consult := expectedLocation(ip, dbOn)
			beh := "-"
			if consult {
				beh = []string{"hit", "miss", "error", "error+country"}[dbBehaviourOf(ip.To16())]
			}
			c.Eval(fmt.Sprintf("lookup|%s|db=%v|%s|%s", cls, dbOn, beh, via))
			if string(info.CountryCode) != want {
				c.Violation("C20/location-label-not-decided-by-class", map[string]any{"ip": ip.String(), "class": cls, "db_enabled": dbOn, "db_behaviour": beh, "label": info.CountryCode, "want": want, "via": via})
				return
			}
			if consult != (len(calls) > 0) {
				c.Violation("C20/database-consultation", map[string]any{"ip": ip.String(), "class": cls, "consulted": calls, "should_consult": consult})
				return
			}
			if consult && (len(calls) != 1 || !net.ParseIP(calls[0]).Equal(ip)) {
				c.Violation("C20/database-asked-about-other-address", map[string]any{"ip": ip.String(), "asked": calls})
				return
			}
			if want == "XL" {
				c.Count("lookup_nonglobal", 1)
			} else if consult {
				c.Count("lookup_db_consulted", 1)
			}
			if i < 3 {
				c.Sample(map[string]any{"ip": ip.String(), "class": cls, "db_enabled": dbOn, "label": info.CountryCode})
			}
		}
	}
}

// renderings of a client IP that must not appear anywhere in the exposition.
func ipRenderings(ip net.IP) []string {
	out := []string{ip.String()}
	if v4 := ip.To4(); v4 != nil {
		out = append(out, "::ffff:"+v4.String(), strconv.FormatUint(uint64(binary.BigEndian.Uint32(v4)), 10),
			fmt.Sprintf("%02x%02x%02x%02x", v4[0], v4[1], v4[2], v4[3]), fmt.Sprintf("%02x%02x:%02x%02x", v4[0], v4[1], v4[2], v4[3]))
	} else {
		ip16 := ip.To16()
		var groups []string
		for i := 0; i < 16; i += 2 {
			groups = append(groups, fmt.Sprintf("%02x%02x", ip16[i], ip16[i+1]))
		}
		out = append(out, strings.Join(groups, ":"), strings.Join(groups, ""))
	}
	return out
}

type clientEndpoint struct {
	IP   net.IP
	Port int
}

// scanExposition looks for client endpoints in every name, label name, label value and value.
func scanExposition(mfs []*dto.MetricFamily, clients []clientEndpoint) (leaks []string, series int, labelNames map[string]bool) {
	labelNames = map[string]bool{}
	var needles []string
	var numeric []float64
	for _, cl := range clients {
		needles = append(needles, ipRenderings(cl.IP)...)
		needles = append(needles, strconv.Itoa(cl.Port))
		numeric = append(numeric, float64(cl.Port))
		if v4 := cl.IP.To4(); v4 != nil {
			numeric = append(numeric, float64(binary.BigEndian.Uint32(v4)))
		}
	}
	checkStr := func(where, s string) {
		ls := strings.ToLower(s)
		for _, n := range needles {
			if len(n) >= 5 && strings.Contains(ls, strings.ToLower(n)) {
				leaks = append(leaks, fmt.Sprintf("%s contains %q: %q", where, n, s))
			}
		}
	}
	checkNum := func(where string, v float64) {
		for _, n := range numeric {
			if v == n && n >= 10000 {
				leaks = append(leaks, fmt.Sprintf("%s has value %v equal to a client port/address number", where, v))
			}
		}
	}
	for _, mf := range mfs {
		checkStr("metric name", mf.GetName())
		for _, m := range mf.GetMetric() {
			series++
			for _, l := range m.GetLabel() {
				labelNames[l.GetName()] = true
				checkStr("label name of "+mf.GetName(), l.GetName())
				checkStr("label "+l.GetName()+" of "+mf.GetName(), l.GetValue())
			}
			if m.Counter != nil {
				checkNum(mf.GetName(), m.GetCounter().GetValue())
			}
			if m.Gauge != nil {
				checkNum(mf.GetName(), m.GetGauge().GetValue())
			}
			if m.Histogram != nil {
				checkNum(mf.GetName()+"_sum", m.GetHistogram().GetSampleSum())
			}
		}
	}
	return
}

var knownLabels = map[string]bool{"proto": true, "dir": true, "access_key": true, "location": true, "asn": true, "asorg": true, "status": true, "port": true, "error": true, "found_key": true, "version": true}

// c20Exposure drives every metric path of the real collectors with distinctive client
// endpoints (fake conns with arbitrary addresses), then scans the gathered families.
func c20Exposure(c *vk.Ctx) {
	r := c.Rng
	rounds := c.N(30, 200)
	for round := 0; round < rounds; round++ {
		dbOn := r.Intn(4) != 0
		var m ipinfo.IPInfoMap
		if dbOn {
			m = &fakeDB{}
		}
		sm, err := oprom.NewServiceMetrics(m)
		if err != nil {
			fatalf("NewServiceMetrics: %v", err)
		}
		reg := prometheus.NewRegistry()
		prometheus.WrapRegistererWithPrefix("shadowsocks_", reg).MustRegister(sm)
		var clients []clientEndpoint
		nClients := 1 + r.Intn(5)
		classes := []string{}
		for i := 0; i < nClients; i++ {
			ip, cls := genIP(r)
			// distinctive: ports far above any count or size used below
			ep := clientEndpoint{ip, 50000 + r.Intn(15000)}
			// skip addresses whose text is too short to be distinctive ("::", "::1", "0.0.0.0")
			if len(ip.String()) < 7 {
				continue
			}
			clients = append(clients, ep)
			classes = append(classes, cls)
			local := &net.TCPAddr{IP: net.IPv4(203, 0, 113, 10), Port: 443}
			for j := 0; j < 1+r.Intn(3); j++ {
				key := fmt.Sprintf("key-%d", r.Intn(3))
				tm := sm.AddOpenTCPConnection(&fakeNetConn{remote: &net.TCPAddr{IP: ep.IP, Port: ep.Port}, local: local})
				data := metrics.ProxyMetrics{ClientProxy: int64(r.Intn(4000)), ProxyTarget: int64(r.Intn(4000)), TargetProxy: int64(r.Intn(4000)), ProxyClient: int64(r.Intn(4000))}
				switch r.Intn(3) {
				case 0:
					tm.AddAuthenticated(key)
					tm.AddClosed(pick(r, []string{"OK", "ERR_RELAY_CLIENT", "ERR_CONNECT"}), data, time.Duration(r.Intn(3000))*time.Millisecond)
				case 1:
					st := pick(r, []string{"ERR_CIPHER", "ERR_REPLAY_CLIENT", "ERR_REPLAY_SERVER"})
					tm.AddProbe(st, pick(r, []string{"eof", "timeout", "other"}), int64(r.Intn(4000)))
					tm.AddClosed(st, data, time.Duration(r.Intn(3000))*time.Millisecond)
				default:
					tm.AddAuthenticated(key)
					tm.AddClosed("ERR_READ_ADDRESS", data, time.Duration(r.Intn(3000))*time.Millisecond)
				}
				um := sm.AddUDPNatEntry(&net.UDPAddr{IP: ep.IP, Port: ep.Port}, key)
				um.AddPacketFromClient(pick(r, []string{"OK", "ERR_CIPHER", "ERR_ADDRESS_PRIVATE"}), int64(r.Intn(1400)), int64(r.Intn(1400)))
				um.AddPacketFromTarget("OK", int64(r.Intn(1400)), int64(r.Intn(1400)))
				if r.Intn(2) == 0 {
					um.RemoveNatEntry()
				}
				sm.AddCipherSearch(pick(r, []string{"tcp", "udp"}), r.Intn(2) == 0, time.Duration(r.Intn(5000))*time.Microsecond)
			}
		}
		mfs, err := reg.Gather()
		if err != nil {
			c.Violation("C20/gather-error", err.Error())
			return
		}
		leaks, series, names := scanExposition(mfs, clients)
		c.Eval(fmt.Sprintf("exposure|fake-conns|db=%v|clients=%d|%v", dbOn, len(clients), classes))
		c.Count("exposure_series_scanned", int64(series))
		if len(leaks) > 0 {
			c.Violation("C20/client-endpoint-in-metrics", map[string]any{"leaks": leaks[:min(len(leaks), 5)]})
			return
		}
		// every location label of every family is one the clients' classes allow: only the empty
		// label when lookup is disabled, else the labels of the clients that were driven
		allowed := map[string]bool{}
		for _, ep := range clients {
			loc, _ := expectedLocation(ep.IP, dbOn)
			allowed[loc] = true
		}
		for _, mf := range mfs {
			for _, mm := range mf.GetMetric() {
				for _, l := range mm.GetLabel() {
					if l.GetName() == "location" && !allowed[l.GetValue()] {
						c.Violation("C20/location-label-not-decided-by-class", map[string]any{"family": mf.GetName(), "label": l.GetValue(), "lookup_enabled": dbOn, "labels_the_clients_classes_allow": vk.SortedKeys(allowed), "client_classes": classes})
						return
					}
				}
			}
			if mf.GetName() == "shadowsocks_tunnel_time_seconds_per_location" {
				c.Count(fmt.Sprintf("tunnel_time_location_families_checked_lookup=%v", dbOn), 1)
			}
		}
		for n := range names {
			if !knownLabels[n] {
				c.Note("label name outside the known set (information only): %s", n)
			}
		}
		c.Count("exposure_rounds", 1)
	}
}

// c20Labels: the location label attached to each client's series in the real collectors is
// decided by that client's address alone - also when clients with similar addresses follow
// each other (shared prefixes, zoned and unzoned forms, IPv4 after IPv4-mapped).
func c20Labels(c *vk.Ctx) {
	r := c.Rng
	for round := 0; round < c.N(20, 100); round++ {
		db := &fakeDB{}
		sm, err := oprom.NewServiceMetrics(db)
		if err != nil {
			fatalf("NewServiceMetrics: %v", err)
		}
		reg := prometheus.NewRegistry()
		reg.MustRegister(sm)
		// a family of addresses sharing their leading groups, in random order
		var ips []net.IP
		switch round % 4 {
		case 0:
			for i := 0; i < 6; i++ {
				ips = append(ips, net.ParseIP(fmt.Sprintf("2001:db8:%x::%x", 1+r.Intn(5), 1+r.Intn(250))))
			}
		case 1:
			ips = []net.IP{net.IPv6loopback, net.ParseIP("::ffff:8.8.8.8"), net.ParseIP("::ffff:10.1.2.3"), net.ParseIP(fmt.Sprintf("::%x", 2+r.Intn(200)))}
		case 2:
			for i := 0; i < 6; i++ {
				ips = append(ips, net.IPv4(45, 90, byte(r.Intn(3)), byte(r.Intn(256))))
			}
		default:
			ips = []net.IP{net.ParseIP("fe80::1"), net.ParseIP(fmt.Sprintf("fe80:%x::1", 1+r.Intn(99))), net.ParseIP("fec0::1"), net.ParseIP("2001:db8::1"), net.ParseIP("fe00::1")}
		}
		r.Shuffle(len(ips), func(i, j int) { ips[i], ips[j] = ips[j], ips[i] })
		last := map[string]float64{}
		for _, ip := range ips {
			want, _ := expectedLocation(ip, true)
			via := "tcp"
			if r.Intn(2) == 0 {
				via = "udp"
			}
			if via == "tcp" {
				tm := sm.AddOpenTCPConnection(&fakeNetConn{remote: &net.TCPAddr{IP: ip, Port: 40000 + r.Intn(9999)}, local: &net.TCPAddr{IP: net.IPv4(203, 0, 113, 10), Port: 443}})
				tm.AddAuthenticated("k")
				tm.AddClosed("OK", metrics.ProxyMetrics{ClientProxy: 10}, time.Millisecond)
			} else {
				um := sm.AddUDPNatEntry(&net.UDPAddr{IP: ip, Port: 40000 + r.Intn(9999)}, "k")
				um.AddPacketFromClient("OK", 10, 5)
			}
			mfs, _ := reg.Gather()
			name := "tcp_connections_opened"
			if via == "udp" {
				name = "udp_packets_from_client_per_location"
			}
			now := counterBy(mfs, name, "location")
			var grew []string
			for loc, v := range now {
				if v > last[via+"/"+loc] {
					grew = append(grew, loc)
				}
				last[via+"/"+loc] = v
			}
			c.Eval(fmt.Sprintf("labels|family=%d|%s|%s", round%4, via, want))
			if len(grew) != 1 || grew[0] != want {
				c.Violation("C20/client-series-labelled-with-another-clients-location", map[string]any{"client": ip.String(), "expected_location": want, "series_that_grew": grew, "via": via, "clients_before": fmt.Sprint(ips)})
				return
			}
			c.Count("per_client_label_checks", 1)
		}
	}
}

func init() {
	vk.Register(&vk.Spec{
		ID:    "C20",
		Level: "exploration",
		Rule: "lookup: PRNG addresses by class (v4/v6 loopback, link-local, multicast, broadcast, unspecified, RFC1918/CGNAT/ULA, global, 16-byte mapped forms, zoned, malformed, nil) x database behaviour (hit, miss, error, error with partial answer, disabled) x entry point (FromIP, TCPAddr, UDPAddr, string address), judged by an independent class oracle incl. the database call log; " +
			"exposure: every collector path driven with distinctive client endpoints (fake conns, and real sockets from lab source addresses incl. probes that end in RST/timeouts), gathered families scanned for any textual/numeric rendering of client IP or port, and every location label of every family (tunnel time included) checked against the labels the clients' classes allow (lookup disabled: only the empty label); class = (phase, address class, db behaviour, entry point)",
		Assumptions: []string{
			"non-global = unspecified, loopback, link-local, multicast, IPv4 broadcast and their mapped forms; RFC1918/ULA/CGNAT go to the database (DESIGN.md, C20 class decisions)",
			"zoned literals: XA or XL accepted as long as consistent and the database is not consulted",
		},
		Batches:  func(t string) int { return map[string]int{"quick": 4, "thorough": 16}[t] },
		Parallel: func(t string) int { return 4 },
		Timeout:  func(t string) time.Duration { return 15 * time.Minute },
		Run: func(c *vk.Ctx) {
			c.Require("lookup_unparseable")
			c.Require("lookup_nonglobal")
			c.Require("lookup_db_consulted")
			c.Require("exposure_rounds")
			c.Require("tunnel_time_location_families_checked_lookup=false")
			c20Lookup(c)
			c20Exposure(c)
			c.Require("per_client_label_checks")
			c20Labels(c)
			c20RealSockets(c)
		},
	})
}

var _ = rand.Int
