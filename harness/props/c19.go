package props

import (
	"fmt"
	"net"
	"runtime"
	"sync"
	"sync/atomic"
	"time"

	oprom "github.com/Jigsaw-Code/outline-ss-server/prometheus"
	"github.com/Jigsaw-Code/outline-ss-server/service"
	"github.com/Jigsaw-Code/outline-ss-server/service/metrics"
	"github.com/prometheus/client_golang/prometheus"

	"verifharness/lab"
	"verifharness/vk"
)

// C19: shared server state is free of data races under concurrent use.
//
// Everything (harness and server binary) is built with the race detector. This check runs
// the concurrent rigs of the shared components; ANY de-duplicated race report in the child
// or in the server process is a violation (the driver collects the reports). The
// sequential-result oracles of the reused rigs ride along.

func c19ReplayStress(c *vk.Ctx) {
	r := c.Rng
	for round := 0; round < c.N(4, 20); round++ {
		cache := service.NewReplayCache(1 + r.Intn(50))
		var wg sync.WaitGroup
		stop := make(chan struct{})
		var adds, resizes atomic.Int64
		for g := 0; g < 6; g++ {
			wg.Add(1)
			gr := c.SubRng("c19replay", round*16+g)
			go func() {
				defer wg.Done()
				for {
					select {
					case <-stop:
						return
					default:
					}
					cache.Add(fmt.Sprintf("id%d", gr.Intn(3)), randBytes(gr, 16))
					adds.Add(1)
				}
			}()
		}
		wg.Add(1)
		go func() {
			defer wg.Done()
			rr := c.SubRng("c19resize", round)
			for {
				select {
				case <-stop:
					return
				default:
				}
				cache.Resize(rr.Intn(100)) // includes 0 (disabled) and back
				resizes.Add(1)
				time.Sleep(50 * time.Microsecond)
			}
		}()
		time.Sleep(time.Duration(c.N(60, 200)) * time.Millisecond)
		close(stop)
		wg.Wait()
		c.Count("replay_adds_vs_resizes", adds.Load())
		c.Count("replay_resizes", resizes.Load())
	}
	c.Eval("rig|replay-cache|adds-vs-resize")
}

func c19MetricsStress(c *vk.Ctx) bool {
	clk := &ctlClock{tick: int64(time.Millisecond)}
	oprom.VerifSetNow(clk.Now)
	sm, err := oprom.NewServiceMetrics(&fakeDB{})
	if err != nil {
		fatalf("NewServiceMetrics: %v", err)
	}
	reg := prometheus.NewRegistry()
	reg.MustRegister(sm)
	var wg sync.WaitGroup
	stop := make(chan struct{})
	var opened, closed, natAdd, natRem, pkts atomic.Int64
	var bytesCP atomic.Int64
	for g := 0; g < 8; g++ {
		wg.Add(1)
		gr := c.SubRng("c19metrics", g)
		go func(g int) {
			defer wg.Done()
			for i := 0; i < c.N(400, 2000); i++ {
				ip := net.IPv4(45, 90, byte(g), byte(1+gr.Intn(4)))
				key := fmt.Sprintf("key-%d", gr.Intn(3))
				tm := sm.AddOpenTCPConnection(&fakeNetConn{remote: &net.TCPAddr{IP: ip, Port: 1000 + g}, local: &net.TCPAddr{IP: net.IPv4(203, 0, 113, 10), Port: 443}})
				opened.Add(1)
				if gr.Intn(3) > 0 {
					tm.AddAuthenticated(key)
				} else {
					tm.AddProbe("ERR_CIPHER", "eof", 10)
				}
				n := int64(1 + gr.Intn(1000))
				tm.AddClosed("OK", metrics.ProxyMetrics{ClientProxy: n}, time.Millisecond)
				bytesCP.Add(n)
				closed.Add(1)
				um := sm.AddUDPNatEntry(&net.UDPAddr{IP: ip, Port: 2000 + g}, key)
				natAdd.Add(1)
				um.AddPacketFromClient("OK", 10, 5)
				um.AddPacketFromTarget("OK", 7, 12)
				pkts.Add(1)
				um.RemoveNatEntry()
				natRem.Add(1)
				sm.AddCipherSearch("tcp", true, time.Microsecond)
			}
		}(g)
	}
	var gathers atomic.Int64
	var gw sync.WaitGroup
	gw.Add(1)
	go func() {
		defer gw.Done()
		for {
			select {
			case <-stop:
				return
			default:
			}
			if _, err := reg.Gather(); err != nil {
				c.Violation("C19/gather-error-under-traffic", err.Error())
				return
			}
			gathers.Add(1)
		}
	}()
	wg.Wait()
	close(stop)
	gw.Wait()
	mfs, err := reg.Gather()
	if err != nil {
		c.Violation("C19/gather-error", err.Error())
		return false
	}
	// no lost updates after quiescence
	checks := map[string][2]float64{
		"tcp_connections_opened":  {counterSum(mfs, "tcp_connections_opened", nil), float64(opened.Load())},
		"tcp_connections_closed":  {counterSum(mfs, "tcp_connections_closed", nil), float64(closed.Load())},
		"udp_nat_entries_added":   {counterSum(mfs, "udp_nat_entries_added", nil), float64(natAdd.Load())},
		"udp_nat_entries_removed": {counterSum(mfs, "udp_nat_entries_removed", nil), float64(natRem.Load())},
		"data_bytes{tcp,c>p}":     {counterSum(mfs, "data_bytes", map[string]string{"proto": "tcp", "dir": "c>p"}), float64(bytesCP.Load())},
		"data_bytes{udp,c>p}":     {counterSum(mfs, "data_bytes", map[string]string{"proto": "udp", "dir": "c>p"}), float64(10 * pkts.Load())},
	}
	for name, v := range checks {
		if v[0] != v[1] {
			c.Violation("C19/lost-counter-update", map[string]any{"metric": name, "gathered": v[0], "calls_made": v[1]})
			return false
		}
	}
	c.Count("metrics_calls_vs_gathers", opened.Load())
	c.Count("metrics_gathers_under_traffic", gathers.Load())
	c.Eval("rig|prometheus-collectors|traffic-vs-gather")
	return true
}

func c19Run(c *vk.Ctx) {
	lab.MustSetup(c.RunDir)
	procs := []int{2, 4, 16}[c.Batch%3]
	defer runtime.GOMAXPROCS(runtime.GOMAXPROCS(procs))
	c.Count(fmt.Sprintf("batches_at_gomaxprocs_%d", procs), 1)
	r := c.Rng
	// 1. key list: lookups vs updates vs usage marking
	c01Concurrent(c)
	c01BigConcurrent(c)
	c01Straddle(c)
	c.Eval("rig|cipher-list|snapshot-mark-update")
	// 2. replay history
	c07Concurrent(c, c.N(100, 500))
	c19ReplayStress(c)
	// 3. metrics collectors
	c17Concurrent(c)
	if !c17SimultaneousFirstOpens(c) {
		return
	}
	if !c19MetricsStress(c) {
		return
	}
	// 4. shared listeners
	for i := 0; i < 2; i++ {
		if !c12Random(c, i%2 == 1) {
			return
		}
	}
	if !c12Forced(c) {
		return
	}
	if !c12PacketBurst(c) {
		return
	}
	c.Eval("rig|shared-listeners|acquire-close-accept-read")
	// 5. association table: many clients, expiry against lookups (and TCP traffic alongside)
	catcher := &panicCatcher{}
	if !c18UDP(c, r, catcher) {
		return
	}
	c.Eval("rig|association-table|churn-vs-lookups")
	if !c04Phase(c, r, 300*time.Millisecond, true) {
		return
	}
	// 6. the real binary under traffic with a reload storm
	if !c11Process(c, r, 40+c.Batch) {
		return
	}
	c.Eval("rig|process|traffic-vs-reload-storm")
	c.Count("rig_sets_completed", 1)
}

func init() {
	vk.Register(&vk.Spec{
		ID:                 "C19",
		Level:              "exploration",
		Rule:               "the concurrent rigs of every shared component run under the Go race detector at GOMAXPROCS 2/4/16 (by batch): key list (lookups vs list replacement vs usage marking, forced straddles), replay cache (porcupine histories, adds vs Resize incl. 0), Prometheus collectors (ticking clock; traffic vs Gather; lost-update audit), shared listeners (acquire/close/accept/read histories, forced H3 schedules, several concurrent readers per packet handle), association table (churn vs lookups, expiry with slow reaper), and the real binary (-race) under client traffic with a reload storm; every distinct race report (de-duplicated by the pair of top in-repo frames) is a violation; sequential-result oracles of the reused rigs ride along",
		Assumptions:        []string{"the race detector only sees accesses that executed; the evidence counts the operations each rig performed", "a race report without any frame of the repository would be a harness defect and is reported as a broken check, not as a violation"},
		Batches:            func(t string) int { return map[string]int{"quick": 6, "thorough": 30}[t] },
		Parallel:           func(t string) int { return 3 },
		Timeout:            func(t string) time.Duration { return 30 * time.Minute },
		RacesAreViolations: true,
		Run: func(c *vk.Ctx) {
			for _, s := range []string{"rig_sets_completed", "replay_adds_vs_resizes", "metrics_gathers_under_traffic", "concurrent_list_updates", "porcupine_ok"} {
				c.Require(s)
			}
			c19Run(c)
		},
	})
}
