package props

import (
	"bytes"
	"errors"
	"fmt"
	"math"
	"math/rand"
	"net"
	"sync/atomic"
	"time"

	oprom "github.com/Jigsaw-Code/outline-ss-server/prometheus"
	"github.com/prometheus/client_golang/prometheus"

	"verifharness/lab"
	"verifharness/vk"
)

// C16: UDP metrics match the datagrams actually relayed.

type c16Expect struct {
	status string
	cp, pt int64 // wire size from the client, payload size sent to the target
}

type c16Client struct {
	sock   *NatSock
	cl     *udpClient
	expect []c16Expect // expected AddPacketFromClient reports, in order
	sentTo map[*udpTarget]int
}

var c16GarbageSeq int64

func c16Run(c *vk.Ctx) {
	lab.MustSetup(c.RunDir)
	r := c.Rng
	for round := 0; round < c.N(2, 6); round++ {
		if !c16Round(c, r, round) {
			return
		}
	}
	if !c16AfterExpiry(c, r) {
		return
	}
	c16LargestDatagrams(c, r)
}

// c16AfterExpiry: a client whose association has expired sends again: the datagram is forwarded
// on a NEW association, which is reported added, and the datagram is reported on it.
func c16AfterExpiry(c *vk.Ctx, r *rand.Rand) bool {
	keys := RandKeys(r, 2, nil, 0)
	rig := StartUDPRig(keys, UDPRigOpts{NatTimeout: 300 * time.Millisecond})
	defer rig.Close(5 * time.Second)
	tgt, err := startUDPTarget("t", net.IPv4(45, 69, byte(c.Batch), 9).To4(), 7001)
	if err != nil {
		return true
	}
	defer tgt.Stop()
	for i := 0; i < c.N(3, 10); i++ {
		k := keys[r.Intn(2)]
		cl, err := newUDPClient(net.IPv4(198, 51, 100, byte(100+i)).To4(), 0, k)
		if err != nil {
			continue
		}
		for gen := 1; gen <= 3; gen++ {
			id := nextID(c.Batch)
			payload := mkUDPPayload(id, 0, 0, 30+r.Intn(100))
			pkt := ssUDP(k, randBytes(r, k.Codec().C.SaltSize), tgt.addr(), payload)
			cl.Send(pkt, rig.Addr4())
			c.Eval(fmt.Sprintf("after-expiry|generation=%d", gen))
			if _, ok := tgt.waitID(id, udpB); !ok {
				c.Violation("C16/datagram-after-expiry-not-forwarded", map[string]any{"generation": gen})
				cl.Close()
				return false
			}
			as := rig.Rec.ByClient(cl.Addr.String())
			if len(as) != gen {
				c.Violation("C16/association-not-reported-added-after-expiry", map[string]any{"associations_reported": len(as), "expected": gen})
				cl.Close()
				return false
			}
			// the report follows the write to the target: the target may see the datagram first
			sn := as[gen-1].Snap()
			for dl := time.Now().Add(udpB); len(sn.FromClient) == 0 && time.Now().Before(dl); sn = as[gen-1].Snap() {
				time.Sleep(time.Millisecond)
			}
			if len(sn.FromClient) != 1 || sn.FromClient[0].Status != "OK" || sn.FromClient[0].A != int64(len(pkt)) || sn.FromClient[0].B != int64(len(payload)) {
				c.Violation("C16/datagram-after-expiry-not-reported-on-its-association", map[string]any{"reports": fmt.Sprintf("%+v", sn.FromClient)})
				cl.Close()
				return false
			}
			// wait for the expiry of this association
			deadline := time.Now().Add(udpB)
			for len(as[gen-1].Snap().Removed) == 0 && time.Now().Before(deadline) {
				time.Sleep(5 * time.Millisecond)
			}
			if len(as[gen-1].Snap().Removed) != 1 {
				c.Violation("C16/association-not-reported-removed-exactly-once", map[string]any{"removals": len(as[gen-1].Snap().Removed)})
				cl.Close()
				return false
			}
			time.Sleep(20 * time.Millisecond)
		}
		cl.Close()
		c.Count("expiry_cycles_reported", 3)
	}
	return true
}

// c16LargestDatagrams: client datagrams at the very top of the size range (65507 bytes over
// IPv4, up to 65527 over IPv6) on live associations: forwarded intact and reported with their
// wire size and payload size.
func c16LargestDatagrams(c *vk.Ctx, r *rand.Rand) bool {
	keys := RandKeys(r, 3, nil, 0)
	rig := StartUDPRig(keys, UDPRigOpts{NatTimeout: 30 * time.Second})
	defer rig.Close(5 * time.Second)
	tgt, err := startUDPTarget("big", net.IPv4(45, 69, byte(c.Batch), 10).To4(), 7001)
	if err != nil {
		return true
	}
	defer tgt.Stop()
	for ci, fam := range []string{"v4", "v6"} {
		k := keys[r.Intn(len(keys))]
		ip, server, wires := net.IPv4(198, 51, 100, 160).To4(), rig.Addr4(), []int{65000, 65506, 65507}
		if fam == "v6" {
			ip, server, wires = net.ParseIP(fmt.Sprintf("2001:db8:c16::%x", 1+ci)), rig.Addr6(), []int{65507, 65508, 65520, 65527}
		}
		cl, err := newUDPClient(ip, 0, k)
		if err != nil {
			c.Inconclusive("largest datagrams: " + err.Error())
			continue
		}
		overhead := k.Codec().C.SaltSize + 16 + len(tgt.addr())
		id0 := nextID(c.Batch)
		cl.Send(ssUDP(k, randBytes(r, k.Codec().C.SaltSize), tgt.addr(), mkUDPPayload(id0, 0, 0, 20)), server)
		if _, ok := tgt.waitID(id0, udpB); !ok {
			c.Violation("C16/valid-datagram-neither-forwarded-nor-failed", map[string]any{"phase": "largest datagrams", "family": fam})
			cl.Close()
			return false
		}
		for _, wire := range wires {
			id := nextID(c.Batch)
			payload := mkUDPPayload(id, 0, 0, wire-overhead)
			pkt := ssUDP(k, randBytes(r, k.Codec().C.SaltSize), tgt.addr(), payload)
			if err := cl.Send(pkt, server); err != nil {
				c.Note("cannot send a %d-byte datagram over %s: %v", len(pkt), fam, err)
				continue
			}
			c.Eval(fmt.Sprintf("largest|%s|wire=%d", fam, wire))
			g, ok := tgt.waitID(id, udpB)
			as := rig.Rec.ByClient(cl.Addr.String())
			var reps []udpPktEv
			if len(as) == 1 {
				for dl := time.Now().Add(udpB); time.Now().Before(dl); time.Sleep(time.Millisecond) {
					reps = as[0].Snap().FromClient
					if len(reps) > 0 && reps[len(reps)-1].A >= 65000 && (ok || reps[len(reps)-1].Status != "OK") {
						break
					}
				}
			}
			wit := map[string]any{"family": fam, "wire_bytes_sent": len(pkt), "payload_bytes": len(payload), "cipher": k.Cipher, "forwarded": ok, "reports": fmt.Sprintf("%+v", reps[max(0, len(reps)-2):])}
			if !ok || !bytes.Equal(g.Data, payload) {
				c.Violation("C16/valid-datagram-neither-forwarded-nor-failed", wit)
				cl.Close()
				return false
			}
			last := reps[len(reps)-1]
			if last.Status != "OK" || last.A != int64(len(pkt)) || last.B != int64(len(payload)) {
				c.Violation("C16/client-datagram-wire-size", wit)
				cl.Close()
				return false
			}
			c.Count("largest_client_datagrams_reported_exactly_"+fam, 1)
		}
		cl.Close()
	}
	return true
}

func c16Round(c *vk.Ctx, r *rand.Rand, round int) bool {
	keys := RandKeys(r, 3+r.Intn(5), nil, 0.2)
	if round%2 == 1 {
		// a key whose id is the empty string is a key like any other (its traffic is its own series)
		keys[0].ID = ""
		c.Count("rounds_with_an_empty_key_id", 1)
	}
	sm, err := oprom.NewServiceMetrics(&fakeDB{})
	if err != nil {
		fatalf("NewServiceMetrics: %v", err)
	}
	reg := prometheus.NewRegistry()
	reg.MustRegister(sm)
	natTimeout := 30 * time.Second // associations end at shutdown; nothing expires mid-run
	w := &c03World{keys: keys, salts: map[string]bool{}}
	w.rig = StartUDPRig(keys, UDPRigOpts{NatTimeout: natTimeout, Tee: sm, ViaService: c.Batch%2 == 1})
	if c.Batch%2 == 1 {
		c.Count("rounds_through_the_service_wrapper", 1)
	}
	b := byte(c.Batch)
	for i, s := range []struct {
		ip   net.IP
		port int
	}{{net.IPv4(45, 69, b, 1).To4(), 7001}, {net.IPv4(45, 69, b, 1).To4(), 7002}, {net.IPv4(45, 69, b, 2).To4(), 7001}, {net.ParseIP("2606:4700::69:1"), 7001}} {
		t, err := startUDPTarget(fmt.Sprintf("t%d", i), s.ip, s.port)
		if err != nil {
			fatalf("target: %v", err)
		}
		w.targets = append(w.targets, t)
	}
	ft, err := startUDPTarget("fence", net.IPv4(45, 69, b, 200).To4(), 7009)
	if err != nil {
		fatalf("fence target: %v", err)
	}
	defer ft.Stop()
	closed := false
	defer func() {
		for _, t := range w.targets {
			t.Stop()
		}
		if !closed {
			w.rig.Close(5 * time.Second)
		}
	}()
	// inject write errors to the target on some sockets: the n-th write fails
	injectEvery := 0
	if round%2 == 1 {
		injectEvery = 4
	}
	w.rig.Nat.mu.Lock()
	w.rig.Nat.OnNew = func(s *NatSock) {
		if injectEvery > 0 && s.ID%2 == 0 {
			n := 0
			s.FailWrite = func(dst net.Addr, l int) error {
				if ua, ok := dst.(*net.UDPAddr); ok && ua.Port == 7009 {
					return nil // never the fence
				}
				n++
				if n%injectEvery == 0 {
					return errors.New("injected write error")
				}
				return nil
			}
		}
	}
	w.rig.Nat.mu.Unlock()
	if injectEvery > 0 {
		// and every 5th write of a reply towards a client fails as well
		var nrw atomic.Int64
		w.rig.Sock.SetFailWrite(func(dst net.Addr, l int) error {
			if nrw.Add(1)%5 == 0 {
				return errors.New("injected reply write error")
			}
			return nil
		})
	}
	fc, _ := newUDPClient(net.IPv4(198, 51, 100, 252).To4(), 0, keys[0])
	defer fc.Close()
	fence := func() bool {
		id := nextID(c.Batch)
		fc.Send(ssUDP(fc.Key, randBytes(r, fc.Key.Codec().C.SaltSize), ft.addr(), mkUDPPayload(id, 0, 0, 16)), w.rig.Addr4())
		if _, ok := ft.waitID(id, udpB); !ok {
			c.Violation("C16/fence-datagram-lost", "a valid datagram to the fence target did not arrive within 10 s")
			return false
		}
		return true
	}
	countWrites := func(s *NatSock) (n int, lastErr string) {
		if s == nil {
			return 0, ""
		}
		for _, e := range s.Snap() {
			if e.Kind == "writeTo" {
				n++
				lastErr = e.Err
			}
		}
		return
	}
	nClients := c.N(6, 16)
	var clients []*c16Client
	for i := 0; i < nClients; i++ {
		ip := net.IPv4(198, 51, 100, byte(1+i)).To4()
		cl, err := newUDPClient(ip, 0, keys[r.Intn(len(keys))])
		if err != nil {
			fatalf("client: %v", err)
		}
		defer cl.Close()
		clients = append(clients, &c16Client{cl: cl, sentTo: map[*udpTarget]int{}})
	}
	dnsBytes := 0.0 // received by the DNS target (not in w.targets)
	sizeSeq := 20   // unique datagram sizes so that any mix-up between datagrams shows in the numbers
	nextSize := func() int { sizeSeq += 1 + r.Intn(3); return sizeSeq }
	type replyExp struct{ tp, pc int64 }
	steps := c.N(10, 24)
	for step := 0; step < steps; step++ {
		for _, cc := range clients {
			cl := cc.cl
			k := cl.Key
			ss := k.Codec().C.SaltSize
			tgt := w.targets[r.Intn(len(w.targets))]
			hasAssoc := len(cc.expect) > 0
			kind := "ok"
			if x := r.Intn(10); x == 0 && hasAssoc {
				kind = "wrong-key"
			} else if x == 1 {
				kind = "dest-private"
			} else if x == 2 {
				kind = "dest-loopback"
			} else if x == 3 {
				kind = "bad-address"
			} else if x == 4 && hasAssoc {
				kind = "garbage"
			}
			size := nextSize()
			var pkt []byte
			exp := c16Expect{}
			id := nextID(c.Batch)
			switch kind {
			case "ok":
				nrep := r.Intn(3)
				rs := nextSize()
				if r.Intn(5) == 0 {
					rs = 0 // the target answers with empty datagrams
					c.Count("zero_length_replies_requested", int64(nrep))
				}
				payload := mkUDPPayload(id, nrep, rs, size)
				pkt = ssUDP(k, randBytes(r, ss), tgt.addr(), payload)
				exp = c16Expect{"OK", int64(len(pkt)), int64(len(payload))}
			case "wrong-key":
				other := KeySpec{ID: "zz", Cipher: k.Cipher, Secret: k.Secret + "x"}
				pkt = ssUDP(other, randBytes(r, ss), tgt.addr(), mkUDPPayload(id, 0, 0, size))
				exp = c16Expect{"ERR_CIPHER", int64(len(pkt)), 0}
			case "garbage":
				pkt = randBytes(r, size+60)
				if atomic.AddInt64(&c16GarbageSeq, 1)%2 == 0 {
					// shorter than any datagram that could authenticate (salt + address + tag): read, so reported
					pkt = randBytes(r, 1+r.Intn(38))
					c.Count("short_garbage_on_live_associations", 1)
				}
				exp = c16Expect{"ERR_CIPHER", int64(len(pkt)), 0}
			case "dest-private":
				pkt = ssUDP(k, randBytes(r, ss), []byte{1, 192, 168, byte(r.Intn(256)), 1, 0x1b, 0x59}, mkUDPPayload(id, 0, 0, size))
				exp = c16Expect{"ERR_ADDRESS_PRIVATE", int64(len(pkt)), 0}
			case "dest-loopback":
				pkt = ssUDP(k, randBytes(r, ss), []byte{1, 127, 0, 0, 1, 0x1b, 0x59}, mkUDPPayload(id, 0, 0, size))
				exp = c16Expect{"ERR_ADDRESS_INVALID", int64(len(pkt)), 0}
			case "bad-address":
				pkt = ssUDP(k, randBytes(r, ss), []byte{7}, mkUDPPayload(id, 0, 0, size))
				exp = c16Expect{"ERR_READ_ADDRESS", int64(len(pkt)), 0}
			}
			c.Progress("C16 step=%d client=%s kind=%s size=%d", step, cl.Addr, kind, len(pkt))
			nW, _ := countWrites(cc.sock)
			cl.Send(pkt, w.rig.Addr4())
			if kind == "ok" {
				// either the datagram reaches the target, or the H2 log shows a failed write for it
				deadline := time.Now().Add(udpB)
				for {
					if g := tgt.findID(id); len(g) > 0 {
						if cc.sock == nil {
							_, p, _ := net.SplitHostPort(g[0].From)
							var port int
							fmt.Sscan(p, &port)
							cc.sock = w.rig.Nat.ByPort(port)
						}
						break
					}
					if n, lastErr := countWrites(cc.sock); n > nW && lastErr != "" {
						exp = c16Expect{"ERR_WRITE", int64(len(pkt)), 0}
						c.Count("injected_write_errors_hit", 1)
						break
					}
					if time.Now().After(deadline) {
						c.Violation("C16/valid-datagram-neither-forwarded-nor-failed", map[string]any{"client": cl.Addr.String(), "target": tgt.Name})
						return false
					}
					time.Sleep(300 * time.Microsecond)
				}
			} else if !fence() {
				return false
			}
			// a datagram is reported iff it created or arrived on an association
			if hasAssoc || kind == "ok" {
				cc.expect = append(cc.expect, exp)
			}
			c.Eval(fmt.Sprintf("datagram|%s|%s|on-association=%v", kind, k.Cipher, hasAssoc))
		}
		time.Sleep(time.Duration(r.Intn(40)) * time.Millisecond)
	}
	// a client whose only datagram is one query to a DNS server (port 53): the answer is relayed,
	// the association closes at once - and both are reported like any other
	if d53, err := startUDPTarget("dns53", net.IPv4(45, 69, b, 53).To4(), 53); err == nil {
		for i := 0; i < 3; i++ {
			k := keys[r.Intn(len(keys))]
			dcl, err := newUDPClient(net.IPv4(198, 51, 100, byte(220+i)).To4(), 0, k)
			if err != nil {
				continue
			}
			id := nextID(c.Batch)
			payload := mkUDPPayload(id, 1, nextSize(), nextSize())
			pkt := ssUDP(k, randBytes(r, k.Codec().C.SaltSize), d53.addr(), payload)
			dcl.Send(pkt, w.rig.Addr4())
			defer dcl.Close()
			if _, ok := d53.waitID(id, udpB); !ok {
				c.Violation("C16/valid-datagram-neither-forwarded-nor-failed", map[string]any{"client": dcl.Addr.String(), "target": "dns53"})
				return false
			}
			dcl.waitReply(k, id|1<<56, 300*time.Millisecond) // may be suppressed by the injected reply-write failure
			cc := &c16Client{cl: dcl, sentTo: map[*udpTarget]int{}}
			cc.expect = append(cc.expect, c16Expect{"OK", int64(len(pkt)), int64(len(payload))})
			clients = append(clients, cc)
			c.Count("dns_single_query_clients", 1)
			dnsBytes += float64(len(payload))
		}
		defer d53.Stop()
	}
	// datagrams from endpoints the client never addressed (a second socket of a target host, a
	// third party): they arrive on the association's socket like any other and are reported
	tp, tperr := NewUDPEnd(net.IPv4(45, 69, b, 77).To4(), 0)
	if tperr == nil {
		defer tp.Close()
		for _, cc := range clients {
			if cc.sock == nil {
				continue
			}
			as := w.rig.Rec.ByClient(cc.cl.Addr.String())
			if len(as) == 0 || len(as[len(as)-1].Snap().Removed) > 0 {
				continue
			}
			_, ps, _ := net.SplitHostPort(cc.sock.Local)
			ua, _ := net.ResolveUDPAddr("udp", "203.0.113.77:"+ps)
			for _, sender := range []*UDPEnd{tp, w.targets[1].UDPEnd} {
				sender.Send(replyPayload(nextID(c.Batch), 1, 8+r.Intn(500)), ua)
				c.Count("datagrams_from_unaddressed_endpoints", 1)
			}
			c.Eval("reply|from-unaddressed-endpoint")
		}
	}
	// oversized replies: the packed datagram does not fit a UDP datagram / the buffer
	for i, cc := range clients {
		if i%2 == 1 || len(cc.expect) == 0 {
			continue
		}
		as := w.rig.Rec.ByClient(cc.cl.Addr.String())
		if len(as) == 0 || len(as[len(as)-1].Snap().Removed) > 0 {
			continue
		}
		// learn the outbound port from the last OK datagram: ask target 0 for a reply of a huge size
		id := nextID(c.Batch)
		big := pick(r, []int{65456, 65457, 65460, 65469, 65470, 65485, 65486, 65494, 65507})
		payload := mkUDPPayload(id, 1, big, nextSize())
		pkt := ssUDP(cc.cl.Key, randBytes(r, cc.cl.Key.Codec().C.SaltSize), w.targets[0].addr(), payload)
		nW, _ := countWrites(cc.sock)
		cc.cl.Send(pkt, w.rig.Addr4())
		deadline := time.Now().Add(udpB)
		for {
			if len(w.targets[0].findID(id)) > 0 {
				cc.expect = append(cc.expect, c16Expect{"OK", int64(len(pkt)), int64(len(payload))})
				break
			}
			if n, lastErr := countWrites(cc.sock); n > nW && lastErr != "" {
				cc.expect = append(cc.expect, c16Expect{"ERR_WRITE", int64(len(pkt)), 0})
				break
			}
			if time.Now().After(deadline) {
				c.Violation("C16/valid-datagram-neither-forwarded-nor-failed", map[string]any{"client": cc.cl.Addr.String()})
				return false
			}
			time.Sleep(300 * time.Microsecond)
		}
		c.Eval(fmt.Sprintf("reply|oversized=%d", big))
		c.Count("oversized_replies_sent", 1)
		// the target's answer (big bytes, sent at once) is reported with ITS size, relayed or not
		if len(w.targets[0].findID(id)) > 0 {
			a := as[len(as)-1]
			found := false
			var sizes []int64
			for dl := time.Now().Add(udpB); !found && time.Now().Before(dl); time.Sleep(time.Millisecond) {
				sizes = sizes[:0]
				for _, e := range a.Snap().FromTarget {
					sizes = append(sizes, e.A)
					found = found || e.A == int64(big)
				}
				// a report for it exists once a payload of at least 65000 bytes shows up
				big1 := false
				for _, sz := range sizes {
					big1 = big1 || sz >= 65000
				}
				if big1 && !found {
					break
				}
			}
			if !found {
				c.Violation("C16/target-datagram-payload-size-misreported", map[string]any{"target_sent_bytes": big, "payload_sizes_reported_for_this_association": sizes, "cipher": cc.cl.Key.Cipher})
				return false
			}
			c.Count("oversized_reply_sizes_reported_exactly", 1)
		}
	}
	// let the replies drain, then shut down: every association is expired by the shutdown
	if !fence() {
		return false
	}
	time.Sleep(150 * time.Millisecond)
	closed = true
	w.rig.Close(5 * time.Second)
	deadline := time.Now().Add(udpB)
	for time.Now().Before(deadline) {
		pending := 0
		for _, a := range w.rig.Rec.All() {
			if len(a.Snap().Removed) == 0 {
				pending++
			}
		}
		if pending == 0 {
			break
		}
		time.Sleep(5 * time.Millisecond)
	}
	time.Sleep(30 * time.Millisecond)

	// ---- audit ----
	sumCP, sumPT, sumTP, sumPC := map[string]float64{}, map[string]float64{}, map[string]float64{}, map[string]float64{}
	added, removed := 0, 0
	for _, cc := range clients {
		as := w.rig.Rec.ByClient(cc.cl.Addr.String())
		var got []udpPktEv
		var fromTarget []udpPktEv
		for _, a := range as {
			sn := a.Snap()
			added++
			removed += len(sn.Removed)
			if len(sn.Removed) != 1 {
				c.Violation("C16/association-not-reported-removed-exactly-once", map[string]any{"client": sn.Client, "removals": len(sn.Removed)})
				return false
			}
			if !IDsFor(keys, cc.cl.Key)[sn.Key] {
				c.Violation("C16/association-added-with-wrong-key", map[string]any{"reported": sn.Key, "client_key": cc.cl.Key})
				return false
			}
			got = append(got, sn.FromClient...)
			fromTarget = append(fromTarget, sn.FromTarget...)
			for _, e := range sn.FromClient {
				sumCP[sn.Key] += float64(e.A)
				sumPT[sn.Key] += float64(e.B)
			}
			for _, e := range sn.FromTarget {
				sumTP[sn.Key] += float64(e.A)
				sumPC[sn.Key] += float64(e.B)
			}
		}
		// an association may have expired between two datagrams: then the first datagram of the new
		// association is reported too; the expected list already contains every datagram sent after the first OK one
		if len(got) != len(cc.expect) {
			c.Violation("C16/client-datagram-report-count", map[string]any{"client": cc.cl.Addr.String(), "reported": len(got), "datagrams_on_associations": len(cc.expect), "reports": fmt.Sprintf("%+v", got)})
			return false
		}
		for i, e := range cc.expect {
			g := got[i]
			if g.Status != e.status && !(e.status == "ERR_WRITE" && g.Status == "OK") {
				c.Violation("C16/client-datagram-status", map[string]any{"index": i, "reported": g.Status, "expected": e.status, "client": cc.cl.Addr.String()})
				return false
			}
			if g.A != e.cp {
				c.Violation("C16/client-datagram-wire-size", map[string]any{"index": i, "reported": g.A, "sent": e.cp})
				return false
			}
			if g.Status == "OK" && g.B != e.pt && e.status == "OK" {
				c.Violation("C16/client-datagram-payload-size", map[string]any{"index": i, "reported": g.B, "payload": e.pt})
				return false
			}
			if g.Status != "OK" && g.B != 0 {
				c.Violation("C16/failed-datagram-reports-bytes-sent-to-target", map[string]any{"index": i, "status": g.Status, "reported_proxy_target_bytes": g.B})
				return false
			}
			c.Count("client_datagram_reports_checked", 1)
		}
		// every datagram the server read from the association's socket is reported, once (hook H2
		// sees the reads on the socket itself)
		if cc.sock != nil && len(as) == 1 {
			reads := 0
			var readBytes int64
			for _, e := range cc.sock.Snap() {
				if e.Kind == "readFrom" && e.Err == "" {
					reads++
					readBytes += int64(e.N)
				}
			}
			var repBytes int64
			for _, e := range fromTarget {
				repBytes += e.A
			}
			if reads != len(fromTarget) || readBytes != repBytes {
				c.Violation("C16/datagrams-read-from-target-socket-differ-from-reports", map[string]any{"client": cc.cl.Addr.String(), "read_from_socket": reads, "reported_from_target": len(fromTarget), "bytes_read": readBytes, "bytes_reported": repBytes})
				return false
			}
			c.Count("socket_reads_vs_reports_checked", 1)
		}
		// replies: what the client actually received vs reports with status OK; failed ones carry 0 bytes
		recv := cc.cl.Snap()
		okReports := 0
		var okWire int64
		for _, e := range fromTarget {
			if e.Status == "OK" {
				okReports++
				okWire += e.B
			} else {
				c.Count("failed_reply_reports", 1)
				if e.B != 0 {
					c.Violation("C16/failed-reply-reports-bytes-sent-to-client", map[string]any{"status": e.Status, "reported_proxy_client_bytes": e.B, "target_payload": e.A})
					return false
				}
			}
		}
		var recvWire int64
		for _, g := range recv {
			recvWire += int64(len(g.Data))
		}
		if okReports != len(recv) || okWire != recvWire {
			c.Violation("C16/reply-reports-differ-from-datagrams-received-by-client", map[string]any{"client": cc.cl.Addr.String(), "ok_reports": okReports, "received": len(recv), "reported_wire_bytes": okWire, "received_wire_bytes": recvWire})
			return false
		}
		c.Count("reply_reports_checked", int64(len(fromTarget)))
	}
	// fence client
	for _, a := range w.rig.Rec.ByClient(fc.Addr.String()) {
		sn := a.Snap()
		added++
		removed += len(sn.Removed)
		for _, e := range sn.FromClient {
			sumCP[sn.Key] += float64(e.A)
			sumPT[sn.Key] += float64(e.B)
		}
		for _, e := range sn.FromTarget {
			sumTP[sn.Key] += float64(e.A)
			sumPC[sn.Key] += float64(e.B)
		}
	}
	// socket side: everything the targets received = sum of reported proxy->target bytes
	var tgtRecv, repP2T float64
	for _, t := range append(append([]*udpTarget(nil), w.targets...), ft) {
		for _, g := range t.Snap() {
			tgtRecv += float64(len(g.Data))
		}
	}
	for _, v := range sumPT {
		repP2T += v
	}
	tgtRecv += dnsBytes
	if tgtRecv != repP2T {
		c.Violation("C16/proxy-to-target-bytes-differ-from-target-sockets", map[string]any{"reported": repP2T, "received_by_targets": tgtRecv})
		return false
	}
	// Prometheus
	mfs, err := reg.Gather()
	if err != nil {
		c.Violation("C16/gather-error", err.Error())
		return false
	}
	if a, rm := counterSum(mfs, "udp_nat_entries_added", nil), counterSum(mfs, "udp_nat_entries_removed", nil); int(a) != added || int(rm) != removed || added != removed {
		c.Violation("C16/nat-entry-counters", map[string]any{"gathered_added": a, "gathered_removed": rm, "recorder_added": added, "recorder_removed": removed})
		return false
	}
	for dir, want := range map[string]map[string]float64{"c>p": sumCP, "p>t": sumPT, "p<t": sumTP, "c<p": sumPC} {
		for key, v := range want {
			got := counterSum(mfs, "data_bytes", map[string]string{"proto": "udp", "dir": dir, "access_key": key})
			if math.Abs(got-v) > 0.5 {
				c.Violation("C16/gathered-data-bytes-differ-from-reports", map[string]any{"dir": dir, "key": key, "gathered": got, "reported_sum": v})
				return false
			}
		}
	}
	c.Count("audits_passed", 1)
	c.Count("associations_audited", int64(added))
	if round == 0 {
		c.Sample(map[string]any{"clients": nClients, "associations": added, "write_error_injection": injectEvery > 0})
	}
	return true
}

// c16ManyKeys: the real collectors fed directly with the reports of several hundred access keys (a large
// server; more keys than any fixed table of series would hold): every key keeps its own series with its own sums.
func c16ManyKeys(c *vk.Ctx) bool {
	r := c.Rng
	sm, err := oprom.NewServiceMetrics(&fakeDB{})
	if err != nil {
		fatalf("NewServiceMetrics: %v", err)
	}
	reg := prometheus.NewRegistry()
	reg.MustRegister(sm)
	nKeys := pickSeqInt(c.Batch, []int{101, 260, 1500, 130})
	type sums struct{ cp, pt, tp, pc float64 }
	want := map[string]*sums{}
	for i := 0; i < nKeys; i++ {
		key := fmt.Sprintf("user-%d", i)
		want[key] = &sums{}
		for a := 0; a < 1+i%2; a++ {
			m := sm.AddUDPNatEntry(&net.UDPAddr{IP: net.IPv4(45, 70, byte(i>>8), byte(i)).To4(), Port: 20000 + a}, key)
			cp, pt := int64(40+r.Intn(1400)), int64(1+r.Intn(1300))
			m.AddPacketFromClient("OK", cp, pt)
			want[key].cp += float64(cp)
			want[key].pt += float64(pt)
			if i%3 != 0 {
				tp := int64(1 + r.Intn(1300))
				m.AddPacketFromTarget("OK", tp, tp+37)
				want[key].tp += float64(tp)
				want[key].pc += float64(tp + 37)
			}
			if i%4 != 1 {
				m.RemoveNatEntry()
			}
		}
	}
	mfs, err := reg.Gather()
	if err != nil {
		c.Violation("C16/gather-error", err.Error())
		return false
	}
	gathered := map[string]float64{}
	for _, mf := range mfs {
		if mf.GetName() != "data_bytes" {
			continue
		}
		for _, m := range mf.GetMetric() {
			if ls := labelsOf(m); ls["proto"] == "udp" {
				gathered[ls["access_key"]+"|"+ls["dir"]] += m.GetCounter().GetValue()
			}
		}
	}
	for key, w := range want {
		for dir, v := range map[string]float64{"c>p": w.cp, "p>t": w.pt, "p<t": w.tp, "c<p": w.pc} {
			got := gathered[key+"|"+dir]
			if math.Abs(got-v) > 0.5 {
				c.Violation("C16/gathered-data-bytes-differ-from-reports", map[string]any{"dir": dir, "key": key, "gathered": got, "reported_sum": v, "keys_on_the_server": nKeys, "phase": "many keys, collectors fed directly"})
				return false
			}
		}
	}
	c.Eval(fmt.Sprintf("many-keys|%s", sizeBucket(nKeys)))
	c.Count("many_key_audits_passed", 1)
	return true
}

func pickSeqInt(i int, xs []int) int { return xs[i%len(xs)] }

func init() {
	vk.Register(&vk.Spec{
		ID:          "C16",
		Level:       "exploration",
		Rule:        "rounds of 6..16 clients x 10..24 steps on the real packet handler (every other round built and entered through NewShadowsocksService/HandlePacket as the binary does) with metrics = tee(recorder, real Prometheus collectors): datagrams of unique sizes (valid with 0..2 replies, wrong key / garbage (also shorter than any valid datagram) on live associations, private/loopback destination, bad address), oversized replies (65460..65507 bytes: send or pack fails), datagrams from endpoints the client never addressed, injected outbound write errors on every other socket; short timeout so all associations expire before the audit; per-datagram report sequence vs the send log, replies vs datagrams received by clients, reads on the association socket (hook H2) vs reports, conservation vs target sockets, gathered families vs recorder sums",
		Assumptions: []string{"a valid datagram that does not reach its target within 2 s is classed as a (possibly injected) write failure; its report may say OK only if the kernel accepted the write"},
		Batches:     func(t string) int { return map[string]int{"quick": 4, "thorough": 16}[t] },
		Parallel:    func(t string) int { return 4 },
		Timeout:     func(t string) time.Duration { return 25 * time.Minute },
		Run: func(c *vk.Ctx) {
			for _, s := range []string{"client_datagram_reports_checked", "reply_reports_checked", "audits_passed", "failed_reply_reports", "oversized_replies_sent", "dns_single_query_clients", "expiry_cycles_reported", "datagrams_from_unaddressed_endpoints", "socket_reads_vs_reports_checked", "oversized_reply_sizes_reported_exactly", "largest_client_datagrams_reported_exactly_v4", "largest_client_datagrams_reported_exactly_v6", "rounds_with_an_empty_key_id", "rounds_through_the_service_wrapper", "many_key_audits_passed"} {
				c.Require(s)
			}
			if !c16ManyKeys(c) {
				return
			}
			c16Run(c)
		},
	})
}
