package props

import (
	"fmt"
	"io"
	"math/rand"
	"net"
	"os"
	"regexp"
	"sort"
	"strings"
	"syscall"
	"time"

	"verifharness/lab"
	"verifharness/sscodec"
	"verifharness/vk"
)

// C10: configuration reload is all-or-nothing (fault enumeration).
//
// Histories of reload attempts against the real binary. Every attempt is either a valid
// configuration or one with a fault injected at an enumerated point. After EVERY attempt:
// the process' listening sockets (from /proc) and a sampled authentication matrix must be
// exactly those of the most recent configuration that loaded; at the end the goroutine dump
// and fd count are compared with a fresh start of that configuration.

type reloadStep struct {
	Fault  string   `json:"fault"` // "" = valid
	Index  int      `json:"index"`
	Conf   ConfSpec `json:"-"`
	Raw    []byte   `json:"-"`
	Occupy *LnSpec  `json:"occupy,omitempty"`
	Expect string   `json:"expect"` // ok | failed
}

var c10Faults = []string{"unreadable-file", "malformed-yaml", "bad-listener-type", "address-without-port", "address-not-ip", "duplicate-listener", "bad-cipher-in-service", "bad-cipher-in-legacy-key", "bind-failure-tcp", "bind-failure-udp"}

// c10GenConf: services only on explicit addresses plus optionally one legacy port.
func c10GenConf(r *rand.Rand, portBase int, gen int) ConfSpec {
	cf := ConfSpec{}
	nSvc := 1 + r.Intn(3)
	for s := 0; s < nSvc; s++ {
		svc := SvcSpec{}
		for l := 0; l < 1+r.Intn(3); l++ {
			// a small address pool, so that consecutive configurations share (retain) listeners
			a := r.Intn(8)
			host := fmt.Sprintf("203.0.113.%d", 10+a)
			if a%4 == 3 {
				host = fmt.Sprintf("[2001:db8:ac::%x]", a)
			}
			ln := LnSpec{pick(r, []string{"tcp", "udp"}), fmt.Sprintf("%s:%d", host, portBase+a)}
			dup := false
			for _, os := range cf.Services {
				for _, ol := range os.Listeners {
					dup = dup || ol == ln
				}
			}
			for _, ol := range svc.Listeners {
				dup = dup || ol == ln
			}
			if !dup {
				svc.Listeners = append(svc.Listeners, ln)
			}
		}
		for k := 0; k < 1+r.Intn(3); k++ {
			ks := KeySpec{ID: fmt.Sprintf("g%d-s%d-k%d", gen, s, k), Cipher: pick(r, cipherNames), Secret: randSecret(r)}
			if r.Intn(2) == 0 {
				// an id that comes back in later configurations (also in ones that fail to load), every
				// time with a new secret (rotation), usually under the same cipher
				ks.ID = fmt.Sprintf("s%d-k%d", s, k)
				if r.Intn(4) > 0 {
					ks.Cipher = cipherNames[(s+k)%len(cipherNames)]
				}
			}
			svc.Keys = append(svc.Keys, ks)
		}
		if len(svc.Listeners) > 0 {
			cf.Services = append(cf.Services, svc)
		}
	}
	if len(cf.Services) == 0 || r.Intn(2) == 0 {
		// legacy per-port keys: the port is usually the same from one configuration to the next,
		// its keys are not
		p := portBase + 20
		if r.Intn(4) == 0 {
			p += 1 + r.Intn(2)
		}
		for i := 0; i < 1+r.Intn(2); i++ {
			lk := KeySpec{fmt.Sprintf("g%d-legacy%d", gen, i), pick(r, cipherNames), randSecret(r)}
			if r.Intn(2) == 0 {
				lk.ID, lk.Cipher = fmt.Sprintf("legacy%d", i), cipherNames[i%len(cipherNames)]
			}
			cf.Legacy = append(cf.Legacy, LegacyKey{lk, p})
		}
	}
	return cf
}

// inject builds the step for a fault kind on top of a valid configuration.
func c10Inject(r *rand.Rand, fault string, cf ConfSpec) (reloadStep, bool) {
	st := reloadStep{Fault: fault, Conf: cf, Expect: "failed"}
	clone := func() ConfSpec {
		n := ConfSpec{Legacy: append([]LegacyKey(nil), cf.Legacy...)}
		for _, s := range cf.Services {
			n.Services = append(n.Services, SvcSpec{append([]LnSpec(nil), s.Listeners...), append([]KeySpec(nil), s.Keys...)})
		}
		return n
	}
	allLn := func(typ string) []LnSpec {
		var out []LnSpec
		for _, s := range cf.Services {
			for _, l := range s.Listeners {
				if l.Type == typ {
					out = append(out, l)
				}
			}
		}
		return out
	}
	switch fault {
	case "unreadable-file":
		st.Raw = nil
	case "malformed-yaml":
		st.Raw = []byte(cf.YAML() + "\n  - this: [is not\n valid yaml: {{{\n")
	case "listener-type-in-upper-case":
		// Today this is refused ("unsupported listener type"); a server that accepted it would have to
		// serve the listener. Either is all-or-nothing; loading it without serving it is not.
		if len(cf.Services) == 0 {
			return st, false
		}
		st.Raw = []byte(strings.Replace(strings.Replace(cf.YAML(), "type: tcp", "type: TCP", 1), "type: udp", "type: UDP", 1))
		st.Expect = "either"
	case "bad-listener-type", "address-without-port", "address-not-ip", "duplicate-listener":
		if len(cf.Services) == 0 {
			return st, false
		}
		n := clone()
		si := r.Intn(len(n.Services))
		li := r.Intn(len(n.Services[si].Listeners))
		st.Index = si
		switch fault {
		case "bad-listener-type":
			n.Services[si].Listeners[li].Type = "sctp"
		case "address-without-port":
			n.Services[si].Listeners[li].Addr = "203.0.113.10"
		case "address-not-ip":
			n.Services[si].Listeners[li].Addr = "localhost:9000"
		default:
			n.Services[si].Listeners = append(n.Services[si].Listeners, n.Services[si].Listeners[li])
		}
		st.Raw = []byte(n.YAML())
	case "bad-cipher-in-service":
		if len(cf.Services) == 0 {
			return st, false
		}
		n := clone()
		si := r.Intn(len(n.Services)) // the i-th service: all earlier ones have started their listeners already
		n.Services[si].Keys[r.Intn(len(n.Services[si].Keys))].Cipher = "rc4-md5"
		st.Index = si
		st.Raw = []byte(n.YAML())
	case "bad-cipher-in-a-service-without-listeners":
		// a service that lists keys but no listener: its keys are still part of the file, and a key
		// nobody can build makes the whole file unloadable
		n := clone()
		n.Services = append(n.Services, SvcSpec{Keys: []KeySpec{{"orphan", "rc4-md5", "x"}}})
		st.Index = len(n.Services) - 1
		st.Raw = []byte(n.YAML())
	case "bad-cipher-in-legacy-key":
		n := clone()
		n.Legacy = append(n.Legacy, LegacyKey{KeySpec{"badlegacy", "des-cbc", "x"}, 19999})
		st.Raw = []byte(n.YAML())
	case "bind-failure-tcp", "bind-failure-udp":
		typ := strings.TrimPrefix(fault, "bind-failure-")
		lns := allLn(typ)
		if len(lns) == 0 {
			return st, false
		}
		j := r.Intn(len(lns)) // the j-th listener of that type
		st.Index = j
		st.Occupy = &lns[j]
		st.Raw = []byte(cf.YAML())
	}
	return st, true
}

var c10Cursor int

var c10Order = []string{"bind-failure-tcp", "unreadable-file", "bind-failure-udp", "malformed-yaml", "bad-cipher-in-service", "bind-failure-tcp", "bad-listener-type",
	"address-without-port", "bind-failure-udp", "address-not-ip", "duplicate-listener", "bad-cipher-in-legacy-key", "listener-type-in-upper-case", "bad-cipher-in-a-service-without-listeners"}

var reCreatedBy = regexp.MustCompile(`created by (\S+)`)

// creationSites counts goroutines of a SIGQUIT dump by in-repo creation site.
func creationSites(dump string) map[string]int {
	out := map[string]int{}
	for _, g := range strings.Split(dump, "\n\n") {
		if !strings.HasPrefix(g, "goroutine ") {
			continue
		}
		m := reCreatedBy.FindStringSubmatch(g)
		if m == nil {
			continue
		}
		site := m[1]
		if strings.Contains(site, "outline-ss-server") {
			out[site]++
		}
	}
	return out
}

func sitesString(m map[string]int) string {
	ks := vk.SortedKeys(m)
	var parts []string
	for _, k := range ks {
		parts = append(parts, fmt.Sprintf("%s=%d", k[strings.LastIndex(k, "/")+1:], m[k]))
	}
	return strings.Join(parts, " ")
}

func listeningMinusMetrics(pid int, metricsAddr string) []string {
	var out []string
	for _, l := range lab.ListeningOf(pid) {
		if l == "tcp "+metricsAddr {
			continue
		}
		// outbound sockets of live UDP associations: wildcard address, kernel-chosen port from
		// the lab's ephemeral range (configured listeners are all below it)
		if strings.HasPrefix(l, "udp [::]:") || strings.HasPrefix(l, "udp 0.0.0.0:") {
			var port int
			fmt.Sscan(l[strings.LastIndex(l, ":")+1:], &port)
			if port >= 20000 {
				continue
			}
		}
		out = append(out, l)
	}
	sort.Strings(out)
	return out
}

func c10History(c *vk.Ctx, r *rand.Rand, hist int, hub *TargetHub, utgt *udpTarget) bool {
	portBase := 11000 + (hist%40)*30
	gen := 0
	cur := c10GenConf(r, portBase, gen)
	srv, err := StartServer(c.RunDir, cur, ServerOpts{UDPTimeout: 400 * time.Millisecond})
	if err != nil {
		c.Violation("C10/valid-configuration-does-not-start", map[string]any{"err": err.Error(), "config": cur})
		if srv != nil {
			srv.Stop()
		}
		return false
	}
	defer srv.Stop()
	pp := &pairProbe{srv: srv, hub: hub, utgt: utgt}
	var held []io.Closer
	defer func() {
		for _, h := range held {
			h.Close()
		}
	}()
	// connections that stay open for the whole history (a silent one, and one that authenticated and
	// idles in its relay): an update never waits for the old configuration's connections to end
	for _, ep := range cur.Endpoints() {
		if ep.Type != "tcp" {
			continue
		}
		if idle, err := net.DialTimeout("tcp", DialAddr(ep.Addr), 5*time.Second); err == nil {
			held = append(held, idle)
		}
		k := ep.Keys[0]
		caseN := nextID(c.Batch)
		hub.On(caseIP4(caseN&0xffffff).String(), func(tc *TargetConn) {
			buf := make([]byte, 64)
			for {
				tc.SetReadDeadline(time.Now().Add(10 * time.Minute))
				if _, err := tc.Read(buf); err != nil {
					break
				}
			}
			tc.Close()
		})
		if cl, err := DialSS(DialAddr(ep.Addr), nil, k, randBytes(r, k.Codec().C.SaltSize)); err == nil {
			cl.WriteRaw(cl.Enc.Encode(append(sscodec.AddrIP(caseIP4(caseN&0xffffff), hub.Port, false), 'h'), nil))
			held = append(held, cl.Conn)
			c.Count("connections_held_open_across_the_history", 1)
		}
		break
	}
	var removed []KeySpec // keys of earlier generations
	var trace []string
	nSteps := 3 + r.Intn(c.N(6, 10))
	var pendingRetry *ConfSpec
	verify := func(step int, what string) bool {
		// (1) listening sockets
		want := cur.ExpectedListening()
		var got []string
		deadline := time.Now().Add(5 * time.Second)
		for {
			got = listeningMinusMetrics(srv.Pid, srv.MetricsAddr)
			if strings.Join(got, ",") == strings.Join(want, ",") || time.Now().After(deadline) {
				break
			}
			time.Sleep(20 * time.Millisecond)
		}
		if strings.Join(got, ",") != strings.Join(want, ",") {
			c.Violation("C10/listening-sockets-differ-from-last-loaded-configuration", map[string]any{"after": what, "step": step, "listening": got, "expected": want, "history": trace})
			return false
		}
		// (2) sampled authentication matrix incl. keys of earlier configurations
		eps := cur.Endpoints()
		keys := cur.AllKeys()
		sample := append([]KeySpec(nil), removed...)
		if len(sample) > 4 {
			r.Shuffle(len(sample), func(i, j int) { sample[i], sample[j] = sample[j], sample[i] })
			sample = sample[:4]
		}
		for _, ep := range eps {
			probe := []KeySpec{ep.Keys[r.Intn(len(ep.Keys))], keys[r.Intn(len(keys))]}
			if len(sample) > 0 {
				probe = append(probe, sample[r.Intn(len(sample))])
			}
			// rotated ids: a key of this listener whose id existed before with another secret (in a
			// configuration that was loaded, or in one that failed to load) - the new secret works,
			// the old one does not
			rot := 0
			for _, k := range ep.Keys {
				for i := len(removed) - 1; i >= 0 && rot < 2; i-- {
					if removed[i].ID == k.ID && removed[i].Material() != k.Material() {
						probe = append(probe, k, removed[i])
						rot++
						c.Count("rotated_id_probes", 1)
						break
					}
				}
			}
			for _, k := range probe {
				ok := true
				if ep.Type == "tcp" {
					_, ok = pp.probeTCP(c, r, ep, k)
				} else {
					ok = pp.probeUDP(c, r, ep, k)
				}
				if !ok {
					c.Note("matrix mismatch after %s (step %d); history: %v", what, step, trace)
					return false
				}
				c.Count("matrix_probes", 1)
			}
		}
		return true
	}
	if !verify(0, "start") {
		return false
	}
	for step := 1; step <= nSteps; step++ {
		gen++
		var st reloadStep
		next := c10GenConf(r, portBase, gen)
		if pendingRetry != nil && r.Intn(10) < 7 {
			// "fix the error and try the update again": the very same file, now loadable
			next = *pendingRetry
			st = reloadStep{Conf: next, Raw: []byte(next.YAML()), Expect: "ok", Fault: "retry-identical-file-after-bind-failure"}
			pendingRetry = nil
		} else if r.Intn(2) == 0 {
			// enumerate the fault list in order (bind failures twice per cycle); skip kinds that do
			// not apply to this configuration
			ok := false
			for try := 0; try < len(c10Order) && !ok; try++ {
				f := c10Order[(c.Batch*5+c10Cursor)%len(c10Order)]
				c10Cursor++
				st, ok = c10Inject(r, f, next)
			}
			if !ok {
				st = reloadStep{Conf: next, Raw: []byte(next.YAML()), Expect: "ok"}
			}
		} else {
			st = reloadStep{Conf: next, Raw: []byte(next.YAML()), Expect: "ok"}
		}
		if step == 2 && nSteps >= 3 && hist%2 == 1 && pendingRetry == nil {
			// a configuration that is valid and serves nothing (empty file, only a comment, an empty
			// services list) loaded over a serving one: everything stops listening, every key is gone
			raw := [][]byte{[]byte(""), []byte("# nothing to serve\n"), []byte("services: []\n")}[(hist/2+c.Batch)%3]
			st = reloadStep{Conf: ConfSpec{}, Raw: raw, Expect: "ok"}
			c.Count("reloads_to_a_configuration_without_listeners", 1)
		}
		c.Progress("C10 hist=%d step=%d fault=%q index=%d", hist, step, st.Fault, st.Index)
		// apply
		var occ io.Closer
		if st.Occupy != nil {
			var err error
			if st.Occupy.Type == "tcp" {
				occ, err = net.Listen("tcp", st.Occupy.Addr)
			} else {
				occ, err = net.ListenPacket("udp", st.Occupy.Addr)
			}
			if err != nil {
				// the address is held by the running configuration (a retained listener): no fault possible here
				st = reloadStep{Conf: next, Raw: []byte(next.YAML()), Expect: "ok"}
				occ = nil
			}
		}
		if st.Fault == "unreadable-file" {
			os.Remove(srv.CfgPath)
			os.Mkdir(srv.CfgPath, 0o755)
		} else {
			if fi, err := os.Stat(srv.CfgPath); err == nil && fi.IsDir() {
				os.RemoveAll(srv.CfgPath)
			}
			atomicWrite(srv.CfgPath, st.Raw)
		}
		res, err := srv.ReloadNoWrite(60 * time.Second)
		if occ != nil {
			occ.Close()
		}
		label := st.Fault
		if label == "" {
			label = "valid"
		}
		trace = append(trace, fmt.Sprintf("%d:%s#%d->%s", step, label, st.Index, res))
		c.Eval(fmt.Sprintf("reload|%s|index=%d|after-failure=%v", label, st.Index, strings.Contains(strings.Join(trace[max(0, len(trace)-2):len(trace)-1], ""), "failed")))
		if err != nil {
			c.Violation("C10/reload-produced-no-result", map[string]any{"err": err.Error(), "history": trace, "log": srv.LogTail(3000)})
			return false
		}
		if st.Expect == "either" {
			st.Expect = res
		}
		if res != st.Expect {
			c.Violation("C10/reload-outcome", map[string]any{"expected": st.Expect, "got": res, "step": st, "history": trace, "log": srv.LogTail(1500)})
			return false
		}
		if res != "ok" {
			// keys that only ever appeared in a configuration that failed to load
			for _, k := range st.Conf.AllKeys() {
				if _, live := firstIDFor(cur.AllKeys(), k); !live {
					removed = append(removed, k)
				}
			}
		}
		if res == "ok" {
			for _, k := range cur.AllKeys() {
				if _, still := firstIDFor(st.Conf.AllKeys(), k); !still {
					removed = append(removed, k)
				}
			}
			cur = st.Conf
			c.Count("reloads_ok", 1)
		} else {
			c.Count("reloads_failed", 1)
			c.Count("fault_"+st.Fault, 1)
			if st.Occupy != nil {
				cfCopy := st.Conf
				pendingRetry = &cfCopy
			}
		}
		if !verify(step, trace[len(trace)-1]) {
			return false
		}
		if !srv.Alive() {
			c.Violation("C10/server-exited", map[string]any{"history": trace, "log": srv.LogTail(3000)})
			return false
		}
	}
	var bigYAML []byte
	// a very large configuration (> 1 MiB of YAML, 13000..15000 keys on one listener): loaded as a
	// whole - its last key authenticates - and replaced as a whole afterwards
	if hist%3 == 0 {
		big := ConfSpec{Legacy: append([]LegacyKey(nil), cur.Legacy...)}
		for _, sv := range cur.Services {
			big.Services = append(big.Services, SvcSpec{append([]LnSpec(nil), sv.Listeners...), append([]KeySpec(nil), sv.Keys...)})
		}
		bigSvc := SvcSpec{Listeners: []LnSpec{{"tcp", fmt.Sprintf("203.0.113.30:%d", portBase+25)}}}
		nBig := 13000 + r.Intn(2000)
		for i := 0; i < nBig; i++ {
			bigSvc.Keys = append(bigSvc.Keys, KeySpec{fmt.Sprintf("big-%05d", i), "chacha20-ietf-poly1305", fmt.Sprintf("secret-%05d-%s", i, "0123456789abcdefghijklmnopqrstuv")})
		}
		big.Services = append(big.Services, bigSvc)
		prev := cur
		if fi, err := os.Stat(srv.CfgPath); err == nil && fi.IsDir() { // left behind by an "unreadable file" step
			os.RemoveAll(srv.CfgPath)
		}
		for pass, cf := range []ConfSpec{big, prev} {
			yaml := []byte(cf.YAML())
			if pass == 0 {
				bigYAML = yaml
			}
			atomicWrite(srv.CfgPath, yaml)
			res, err := srv.ReloadNoWrite(120 * time.Second)
			trace = append(trace, fmt.Sprintf("large-config-pass-%d(%d bytes)->%s", pass, len(yaml), res))
			c.Eval(fmt.Sprintf("reload|large-configuration|pass=%d", pass))
			if err != nil || res != "ok" {
				c.Violation("C10/reload-outcome", map[string]any{"expected": "ok", "got": res, "err": fmt.Sprint(err), "config_bytes": len(yaml), "keys_on_one_listener": nBig, "history": trace})
				return false
			}
			cur = cf
			if pass == 0 {
				ep := Endpoint{"tcp", bigSvc.Listeners[0].Addr, bigSvc.Keys, "svc-big"}
				for _, k := range []KeySpec{bigSvc.Keys[nBig-1], bigSvc.Keys[0], bigSvc.Keys[nBig/2]} {
					if _, ok := pp.probeTCP(c, r, ep, k); !ok {
						c.Note("large configuration (%d bytes, %d keys): key %s; history: %v", len(yaml), nBig, k.ID, trace)
						return false
					}
				}
				c.Count("large_configurations_loaded_completely", 1)
			}
			if !verify(nSteps+1+pass, trace[len(trace)-1]) {
				return false
			}
		}
	}
	// two updates in quick succession, the first one slow (the large file), the second one fast (the
	// small file again): when both are through, the configuration in force is the LAST file written
	if hist%3 == 0 && bigYAML != nil {
		atomicWrite(srv.CfgPath, bigYAML)
		syscall.Kill(srv.Pid, syscall.SIGHUP)
		time.Sleep(300 * time.Millisecond) // the first signal has been taken by now; its (slow) reload is in progress
		atomicWrite(srv.CfgPath, []byte(cur.YAML()))
		syscall.Kill(srv.Pid, syscall.SIGHUP)
		settled := true
		for i := 0; i < 2; i++ {
			if _, err := srv.WaitLog([]string{"Stopped all listeners for running config", "Failed to update server"}, []time.Duration{120 * time.Second, 30 * time.Second}[i]); err != nil {
				if i == 0 {
					c.Violation("C10/reload-produced-no-result", map[string]any{"phase": "two updates in quick succession", "err": err.Error(), "log": srv.LogTail(2000)})
					return false
				}
				// the process coalesced the two signals (the second arrived before the first was taken):
				// nothing can be said about which file it read
				c.Inconclusive("two SIGHUPs in quick succession were coalesced into one reload")
				settled = false
			}
		}
		if !settled {
			// bring the server back to a defined state
			if res, err := srv.Reload([]byte(cur.YAML()), 120*time.Second); err != nil || res != "ok" {
				c.Violation("C10/reload-outcome", map[string]any{"expected": "ok", "got": res, "err": fmt.Sprint(err)})
				return false
			}
		}
		trace = append(trace, "burst: large file, 300 ms later the small file again")
		c.Eval("reload|two-updates-in-quick-succession|slow-then-fast")
		if !verify(nSteps+3, "two updates in quick succession (large file, then the small one)") {
			return false
		}
		c.Count("quick_succession_updates_settled_on_the_last_file", 1)
	}
	// (3) goroutines and descriptors: same as a fresh start of the last loaded configuration
	for _, h := range held { // the long-lived connections end now; their handlers belong to old configurations
		h.Close()
	}
	held = nil
	time.Sleep(1200 * time.Millisecond) // UDP associations created by the probes expire (timeout 0.4 s)
	// the descriptor table is read once it has stopped changing (three equal readings 200 ms apart, at most
	// 6 s): on a loaded machine the last association or connection of the history may still be on its way
	// out after the fixed pause - a descriptor that stays is counted, one that is being released is not
	fdReloaded := stableFDs(srv.Pid)
	dumpReloaded := srv.QuitDump()
	fresh, err := StartServer(c.RunDir, cur, ServerOpts{UDPTimeout: 400 * time.Millisecond})
	if err != nil {
		c.Inconclusive("fresh start for comparison failed: " + err.Error())
		if fresh != nil {
			fresh.Stop()
		}
		return true
	}
	fdFresh := stableFDs(fresh.Pid)
	dumpFresh := fresh.QuitDump()
	a, b := creationSites(dumpReloaded), creationSites(dumpFresh)
	if sitesString(a) != sitesString(b) {
		c.Violation("C10/goroutines-left-from-failed-or-replaced-configurations", map[string]any{"after_history": sitesString(a), "fresh_start": sitesString(b), "history": trace})
		return false
	}
	if fdReloaded != fdFresh {
		c.Violation("C10/descriptors-left-from-failed-or-replaced-configurations", map[string]any{"after_history": fdReloaded, "fresh_start": fdFresh, "history": trace})
		return false
	}
	c.Count("histories", 1)
	c.Count("final_goroutine_and_fd_audits", 1)
	if hist == 0 {
		c.Sample(map[string]any{"history": trace, "goroutines_by_creation_site": sitesString(a)})
	}
	return true
}

func c10Run(c *vk.Ctx) {
	lab.MustSetup(c.RunDir)
	r := c.Rng
	hub := StartTargetHub(0)
	defer hub.Close()
	utgt, err := startUDPTarget("echo", net.IPv4(45, 72, byte(c.Batch), 1).To4(), 7001)
	if err != nil {
		fatalf("udp target: %v", err)
	}
	defer utgt.Stop()
	for h := 0; h < c.N(3, 10); h++ {
		if !c10History(c, r, c.Batch*100+h, hub, utgt) {
			return
		}
	}
}

func init() {
	vk.Register(&vk.Spec{
		ID:          "C10",
		Level:       "fault_enumeration",
		Rule:        "histories of 3..12 SIGHUP reloads of the real binary; every attempt is a valid PRNG configuration (sharing addresses with its predecessor) or carries one fault from the enumerated list {unreadable file, malformed YAML, bad listener type, address without port, address not an IP, duplicate listener, bad cipher in the i-th service, bad cipher in a legacy key, TCP/UDP bind failure at the j-th listener}; a bind failure is usually followed by a retry of the identical file; after every attempt the process' socket table and a sampled (listener, key) matrix incl. keys of earlier configurations, keys of configurations that failed to load, and both secrets of ids that recur with a rotated secret are compared with the last loaded configuration; finally goroutines by creation site and fd count vs a fresh start; class = (fault, index, preceded-by-failure)",
		Assumptions: []string{"synchronisation on the server's own log markers; no marker within 60 s is a violation (hang)", "root ignores file modes, so 'unreadable' is a directory in place of the file"},
		Batches:     func(t string) int { return map[string]int{"quick": 5, "thorough": 20}[t] },
		Parallel:    func(t string) int { return 5 },
		Timeout:     func(t string) time.Duration { return 25 * time.Minute },
		RaceUpgrade: func(report string) (string, bool) {
			// the reload machinery of the binary (package main) is single-threaded by design: a data race
			// in it means two reloads (or a reload and a stop) ran at the same time
			if strings.Contains(report, "main.(*OutlineServer)") || strings.Contains(report, "main.RunOutlineServer") {
				return "C10/reloads-not-serialised", true
			}
			return "", false
		},
		Run: func(c *vk.Ctx) {
			for _, s := range []string{"histories", "reloads_ok", "reloads_failed", "matrix_probes", "rotated_id_probes", "final_goroutine_and_fd_audits", "large_configurations_loaded_completely", "quick_succession_updates_settled_on_the_last_file", "connections_held_open_across_the_history"} {
				c.Require(s)
			}
			c10Run(c)
		},
	})
}

// stableFDs reads a process's descriptor count once it has stopped changing (three equal readings 200 ms
// apart, at most 6 s).
func stableFDs(pid int) int {
	n := len(lab.FDs(pid))
	for i, same := 0, 0; i < 30 && same < 3; i++ {
		time.Sleep(200 * time.Millisecond)
		if m := len(lab.FDs(pid)); m == n {
			same++
		} else {
			same, n = 0, m
		}
	}
	return n
}
