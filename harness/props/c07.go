package props

import (
	"encoding/binary"
	"fmt"
	"math/rand"
	"sync"
	"sync/atomic"
	"time"

	"github.com/Jigsaw-Code/outline-ss-server/service"
	"github.com/anishathalye/porcupine"

	"verifharness/vk"
)

// C07: a client handshake is accepted at most once within the replay history.
//
// Black-box specification of ReplayCache (NOT a copy of its rotation code):
//   MUST-REFUSE  the same (id, salt) was last checked with fewer than m other checks in
//                between, where m is the minimum capacity in force over that interval, and
//                the capacity was never 0 in the interval;
//   MUST-ACCEPT  (id, salt) was never checked before and its documented 32-bit checksum
//                (XOR-fold of id and salt bytes) equals that of no earlier handshake;
//   otherwise    either answer.

// docChecksum replicates the checksum documented in replay.go, only to EXCUSE collisions.
func docChecksum(id string, salt []byte) uint32 {
	var b [4]byte
	for i := 0; i < len(id); i++ {
		b[i&3] ^= id[i]
	}
	for i, v := range salt {
		b[i&3] ^= v
	}
	return binary.BigEndian.Uint32(b[:])
}

type replaySpec struct {
	t        int            // number of Add calls so far
	last     map[string]int // handshake -> index of its most recent check
	sums     map[uint32]bool
	capNow   int
	resizeAt []int // Add-call index at which a resize took effect (applies to calls >= index)
	resizeTo []int
}

func newReplaySpec(capacity int) *replaySpec {
	return &replaySpec{last: map[string]int{}, sums: map[uint32]bool{}, capNow: capacity, resizeAt: []int{0}, resizeTo: []int{capacity}}
}

func (s *replaySpec) resize(c int) {
	s.capNow = c
	s.resizeAt = append(s.resizeAt, s.t)
	s.resizeTo = append(s.resizeTo, c)
}

// minCap over Add-call indices [from, to] (capacity in force when each call was made). Intervals in which
// the history was switched off (size 0) are skipped: nothing is checked against or added to the history
// while it is off, so what was remembered before is still among "the most recent N checked" once a size
// N > 0 is in force again (N -> 0 -> N keeps the history). The result is 0 when the history was off at
// either end: a check made while it is off is not remembered, and nothing is refused while it is off.
func (s *replaySpec) minCap(from, to int) int {
	if s.capAt(from) == 0 || s.capAt(to) == 0 {
		return 0
	}
	m := 1 << 30
	for i := len(s.resizeAt) - 1; i >= 0; i-- {
		if s.resizeAt[i] > to {
			continue
		}
		// this setting is in force from resizeAt[i] until the next resize; a later resize at the same
		// index replaces it before any call was made under it
		inForce := i == len(s.resizeAt)-1 || s.resizeAt[i+1] > s.resizeAt[i]
		if inForce && s.resizeTo[i] > 0 && s.resizeTo[i] < m {
			m = s.resizeTo[i]
		}
		if s.resizeAt[i] <= from {
			break
		}
	}
	return m
}

// capAt is the size in force when Add call number idx was made.
func (s *replaySpec) capAt(idx int) int {
	for i := len(s.resizeAt) - 1; i >= 0; i-- {
		if s.resizeAt[i] <= idx {
			return s.resizeTo[i]
		}
	}
	return s.resizeTo[0]
}

// judge returns "refuse", "accept" or "either" for the next Add of (id, salt), and records it.
func (s *replaySpec) judge(id string, salt []byte) (verdict string, dist int, m int) {
	key := id + "\x00" + string(salt)
	sum := docChecksum(id, salt)
	idx := s.t
	s.t++
	prev, seen := s.last[key]
	defer func() {
		s.last[key] = idx
		s.sums[sum] = true
	}()
	if seen {
		dist = idx - prev - 1
		m = s.minCap(prev, idx)
		if m > 0 && dist < m {
			return "refuse", dist, m
		}
		return "either", dist, m
	}
	if !s.sums[sum] {
		return "accept", -1, s.capNow
	}
	return "either", -1, s.capNow
}

type c07Regime struct {
	name    string
	caps    []int
	ids     int
	salts   int
	saltLen int
}

func c07Sequential(c *vk.Ctx) {
	r := c.Rng
	regimes := []c07Regime{
		{"tiny-cap/few-keys", []int{1, 2, 3, 4, 5, 8}, 2, 12, 16},
		{"small-cap/few-keys", []int{8, 16, 30, 64}, 3, 200, 32},
		{"mid-cap", []int{100, 500, 1000}, 4, 3000, 32},
		{"large-cap", []int{5000, 20000}, 5, 60000, 24},
		{"zero-and-back", []int{0, 1, 4, 50}, 2, 40, 32},
	}
	opsPer := c.N(12000, 120000)
	for _, rg := range regimes {
		for rep := 0; rep < c.N(2, 4); rep++ {
			capacity := pick(r, rg.caps)
			cache := service.NewReplayCache(capacity)
			spec := newReplaySpec(capacity)
			type hs struct {
				id   string
				salt []byte
			}
			var hist []hs
			ids := make([]string, rg.ids)
			for i := range ids {
				ids[i] = fmt.Sprintf("key-%d-%s", i, randSecret(r)[:3])
			}
			// id pairs that differ only by a swap so that a checksum ignoring the id collides
			if len(ids) >= 2 {
				ids[1] = ids[0][:len(ids[0])-1] + "Z"
			}
			saltPool := make([][]byte, rg.salts)
			for i := range saltPool {
				saltPool[i] = randBytes(r, rg.saltLen)
			}
			c.Progress("C07 seq regime=%s cap=%d", rg.name, capacity)
			for op := 0; op < opsPer; op++ {
				if r.Intn(400) == 0 {
					nc := pick(r, rg.caps)
					if r.Intn(3) == 0 {
						nc = r.Intn(service.MaxCapacity + 1)
					}
					if err := cache.Resize(nc); err != nil {
						c.Violation("C07/resize-error", fmt.Sprintf("Resize(%d): %v", nc, err))
					}
					spec.resize(nc)
					c.Count("resizes", 1)
					continue
				}
				var h hs
				class := ""
				switch x := r.Intn(10); {
				case x < 3 && len(hist) > 0:
					// re-present at a distance chosen around the promise boundary
					m := spec.capNow
					var d int
					switch r.Intn(5) {
					case 0:
						d = 0
					case 1:
						d = m - 1 - r.Intn(2)
					case 2:
						d = m + r.Intn(2)
					case 3:
						d = r.Intn(2*m + 2)
					default:
						d = r.Intn(len(hist))
					}
					if d < 0 {
						d = 0
					}
					if d >= len(hist) {
						d = len(hist) - 1
					}
					h = hist[len(hist)-1-d]
					class = "replay"
				case x < 5:
					h = hs{pick(r, ids), pick(r, saltPool)}
					class = "pool"
				case x < 6 && len(hist) > 0:
					// same salt as a recent handshake, different id
					o := hist[len(hist)-1-r.Intn(min(len(hist), 5))]
					h = hs{pick(r, ids), o.salt}
					class = "same-salt-other-id"
				default:
					h = hs{pick(r, ids), randBytes(r, rg.saltLen)}
					class = "fresh"
				}
				verdict, dist, m := spec.judge(h.id, h.salt)
				got := cache.Add(h.id, h.salt)
				hist = append(hist, h)
				if len(hist) > 50000 {
					hist = hist[len(hist)-45000:]
				}
				dc := "na"
				if dist >= 0 {
					switch {
					case dist == 0:
						dc = "d=0"
					case dist < m-1:
						dc = "d<m-1"
					case dist == m-1:
						dc = "d=m-1"
					case dist == m:
						dc = "d=m"
					case dist < 2*m:
						dc = "m<d<2m"
					default:
						dc = "d>=2m"
					}
				}
				c.Eval(fmt.Sprintf("seq|%s|%s|%s|%s|cap=%s", rg.name, class, verdict, dc, sizeBucket(m)))
				switch verdict {
				case "refuse":
					c.Count("seq_must_refuse", 1)
					if got {
						c.Violation("C07/replay-accepted-within-history", map[string]any{"regime": rg.name, "op": op, "id": h.id, "salt": fmt.Sprintf("%x", h.salt), "intervening_checks": dist, "min_capacity": m})
						return
					}
				case "accept":
					c.Count("seq_must_accept", 1)
					if !got {
						c.Violation("C07/fresh-handshake-refused-without-collision", map[string]any{"regime": rg.name, "op": op, "id": h.id, "salt": fmt.Sprintf("%x", h.salt)})
						return
					}
				default:
					c.Count("seq_either", 1)
				}
			}
			c.Sample(map[string]any{"regime": rg.name, "initial_capacity": capacity, "ops": opsPer})
		}
	}
}

// c07OffAndOn: the history is switched off and on again mid-stream (N -> 0 -> N2). What was checked before
// the switch-off and is still among the most recent min(N, N2) checks must be refused afterwards; what was
// presented while the history was off is served. Deterministic shapes, judged by the same spec.
func c07OffAndOn(c *vk.Ctx) {
	r := c.Rng
	shapes := []struct{ n, before, off, n2 int }{
		{50, 20, 0, 50}, {50, 20, 5, 50}, {200, 150, 10, 100}, {1000, 300, 40, 20000}, {20000, 500, 3, 1000}, {8, 7, 0, 8}, {4, 2, 1, 64},
	}
	for si, sh := range shapes {
		cache := service.NewReplayCache(sh.n)
		spec := newReplaySpec(sh.n)
		id := fmt.Sprintf("key-off-%d", si)
		var before [][]byte
		step := func(salt []byte, class string) bool {
			verdict, dist, m := spec.judge(id, salt)
			got := cache.Add(id, salt)
			c.Eval(fmt.Sprintf("offon|shape=%d|%s|%s", si, class, verdict))
			if verdict == "refuse" && got {
				c.Violation("C07/replay-accepted-after-history-switched-off-and-on", map[string]any{"sizes": []int{sh.n, 0, sh.n2}, "class": class, "salt": fmt.Sprintf("%x", salt), "intervening_checks": dist, "min_capacity": m})
				return false
			}
			if verdict == "accept" && !got {
				c.Violation("C07/fresh-handshake-refused-without-collision", map[string]any{"sizes": []int{sh.n, 0, sh.n2}, "class": class, "salt": fmt.Sprintf("%x", salt)})
				return false
			}
			if verdict == "refuse" && class == "replay-of-before" {
				c.Count("refusals_across_switch_off", 1)
			}
			return true
		}
		for i := 0; i < sh.before; i++ {
			b := randBytes(r, 32)
			before = append(before, b)
			if !step(b, "before") {
				return
			}
		}
		cache.Resize(0)
		spec.resize(0)
		for i := 0; i < sh.off; i++ {
			if !step(randBytes(r, 32), "while-off") {
				return
			}
		}
		if sh.off > 0 && !step(before[len(before)-1], "replay-while-off") {
			return
		}
		cache.Resize(sh.n2)
		spec.resize(sh.n2)
		c.Count("resizes", 2)
		// newest first: each is within the promise as long as the checks since stay below min(n, n2)
		for i := len(before) - 1; i >= 0 && len(before)-1-i < 12; i-- {
			if !step(before[i], "replay-of-before") {
				return
			}
		}
	}
}

// ---- concurrent histories checked with porcupine ----

type rcIn struct {
	Resize bool
	Cap    int
	ID     string
	Salt   string
}

type rcState struct {
	ops []rcIn // linearised calls so far (Adds and Resizes)
	cap int
}

func rcJudge(st rcState, in rcIn) string {
	// Re-run the sequential spec over the linearised prefix.
	spec := newReplaySpec(st.cap)
	for _, o := range st.ops {
		if o.Resize {
			spec.resize(o.Cap)
		} else {
			spec.judge(o.ID, []byte(o.Salt))
		}
	}
	v, _, _ := spec.judge(in.ID, []byte(in.Salt))
	return v
}

func rcModel(initialCap int) porcupine.Model {
	return porcupine.Model{
		Init: func() interface{} { return rcState{cap: initialCap} },
		Step: func(state, input, output interface{}) (bool, interface{}) {
			st := state.(rcState)
			in := input.(rcIn)
			ns := rcState{ops: append(append([]rcIn(nil), st.ops...), in), cap: st.cap}
			if in.Resize {
				return true, ns
			}
			switch rcJudge(st, in) {
			case "refuse":
				return output.(bool) == false, ns
			case "accept":
				return output.(bool) == true, ns
			}
			return true, ns
		},
		Equal: func(a, b interface{}) bool {
			x, y := a.(rcState), b.(rcState)
			if len(x.ops) != len(y.ops) {
				return false
			}
			for i := range x.ops {
				if x.ops[i] != y.ops[i] {
					return false
				}
			}
			return true
		},
		DescribeOperation: func(input, output interface{}) string {
			in := input.(rcIn)
			if in.Resize {
				return fmt.Sprintf("Resize(%d)", in.Cap)
			}
			return fmt.Sprintf("Add(%s,%x)->%v", in.ID, in.Salt, output)
		},
	}
}

var monoBase = time.Now()

func mono() int64 { return int64(time.Since(monoBase)) }

// c07Concurrent runs many short concurrent histories against the real cache and checks
// each with porcupine; plus the direct exactly-one-winner oracle.
func c07Concurrent(c *vk.Ctx, histories int) {
	r := c.Rng
	for h := 0; h < histories; h++ {
		capacity := 1 + r.Intn(4)
		cache := service.NewReplayCache(capacity)
		threads := 3 + r.Intn(5)
		perThread := 3 + r.Intn(5)
		salts := []string{"s0", "s1", "s2"}[:1+r.Intn(3)]
		ids := []string{"a", "b"}[:1+r.Intn(2)]
		withResize := r.Intn(3) == 0
		var mu sync.Mutex
		var ops []porcupine.Operation
		var wg sync.WaitGroup
		start := make(chan struct{})
		for t := 0; t < threads; t++ {
			wg.Add(1)
			tr := c.SubRng("c07conc", h*64+t)
			go func(t int, tr *rand.Rand) {
				defer wg.Done()
				<-start
				for i := 0; i < perThread; i++ {
					var in rcIn
					if withResize && t == 0 && i%2 == 1 {
						in = rcIn{Resize: true, Cap: 1 + tr.Intn(4)}
					} else {
						in = rcIn{ID: ids[tr.Intn(len(ids))], Salt: salts[tr.Intn(len(salts))]}
					}
					call := mono()
					var out interface{}
					if in.Resize {
						cache.Resize(in.Cap)
						out = true
					} else {
						out = cache.Add(in.ID, []byte(in.Salt))
					}
					ret := mono()
					mu.Lock()
					ops = append(ops, porcupine.Operation{ClientId: t, Input: in, Call: call, Output: out, Return: ret})
					mu.Unlock()
				}
			}(t, tr)
		}
		close(start)
		wg.Wait()
		res, _ := porcupine.CheckOperationsVerbose(rcModel(capacity), ops, 20*time.Second)
		overlap := 0
		for i := range ops {
			for j := range ops {
				if i < j && ops[i].Call < ops[j].Return && ops[j].Call < ops[i].Return {
					overlap++
				}
			}
		}
		c.Count("porcupine_overlapping_op_pairs", int64(overlap))
		c.Eval(fmt.Sprintf("porcupine|cap=%d|threads=%d|resize=%v|salts=%d|ids=%d", capacity, threads, withResize, len(salts), len(ids)))
		switch res {
		case porcupine.Ok:
			c.Count("porcupine_ok", 1)
		case porcupine.Illegal:
			desc := []string{}
			m := rcModel(capacity)
			for _, o := range ops {
				desc = append(desc, fmt.Sprintf("c%d [%d,%d] %s", o.ClientId, o.Call, o.Return, m.DescribeOperation(o.Input, o.Output)))
			}
			c.Violation("C07/concurrent-history-not-linearizable", map[string]any{"capacity": capacity, "history": desc})
			return
		default:
			c.Inconclusive("porcupine timeout")
			c.Count("porcupine_unknown", 1)
		}
		if h == 0 {
			c.Sample(map[string]any{"porcupine_history_ops": len(ops), "capacity": capacity, "threads": threads, "result": string(res)})
		}
	}
	// Direct oracle: K goroutines present the same never-seen handshake: exactly one winner.
	rounds := c.N(3000, 20000)
	cache := service.NewReplayCache(1000)
	K := 8
	var winners atomic.Int64
	var wg sync.WaitGroup
	for round := 0; round < rounds; round++ {
		salt := randBytes(r, 32)
		salt[0], salt[1], salt[2], salt[3] = byte(round>>24), byte(round>>16), byte(round>>8), byte(round) // no accidental checksum collisions within 1000
		winners.Store(0)
		start := make(chan struct{})
		for k := 0; k < K; k++ {
			wg.Add(1)
			go func() {
				defer wg.Done()
				<-start
				if cache.Add("dup", salt) {
					winners.Add(1)
				}
			}()
		}
		close(start)
		wg.Wait()
		if w := winners.Load(); w != 1 {
			c.Violation("C07/concurrent-duplicates-winners", map[string]any{"round": round, "winners": w, "copies": K})
			return
		}
	}
	c.EvalN("direct|8-copies-one-winner", int64(rounds))
	c.Count("direct_duplicate_rounds", int64(rounds))
}

func init() {
	vk.Register(&vk.Spec{
		ID:    "C07",
		Level: "exploration",
		Rule: "component: PRNG-generated Add/Resize histories against the real ReplayCache in five regimes (capacities 0..20000, re-presentations aimed at the promise boundary d=m-1/m/2m, same salt under other ids), judged by a black-box spec (must-refuse / must-accept / either); " +
			"concurrent: short multi-thread histories recorded at the call boundary and checked with porcupine against the same spec, plus 8-copies-one-winner rounds; end-to-end: identical handshakes presented concurrently and sequentially through real listeners, across services (services: and legacy keys: format) and SIGHUP reloads of the real binary, history resized on a running service (0->N, N->0->N), refused copies get the probe deadline set once; " +
			"a class is (phase, regime, input class, verdict, distance class, capacity bucket)",
		Assumptions: []string{
			"must-accept uses the checksum documented in replay.go only to excuse collisions",
			"porcupine timeouts are counted as inconclusive",
		},
		Batches:  func(t string) int { return map[string]int{"quick": 4, "thorough": 16}[t] },
		Parallel: func(t string) int { return 4 },
		Timeout:  func(t string) time.Duration { return 20 * time.Minute },
		Run: func(c *vk.Ctx) {
			c.Require("seq_must_refuse")
			c.Require("seq_must_accept")
			c.Require("refusals_across_switch_off")
			c.Require("porcupine_ok")
			c.Require("direct_duplicate_rounds")
			c.Require("process_replays_refused_across_reload")
			c.Require("process_replays_refused_on_legacy_port")
			c.Require("e2e_refused_copies_with_probe_deadline")
			c.Require("e2e_replays_refused_after_runtime_resize")
			c.Require("e2e_replays_with_altered_continuation_refused")
			if c.Batch%2 == 0 {
				c07Sequential(c)
				c07OffAndOn(c)
			} else {
				c07Concurrent(c, c.N(300, 1500))
			}
			c07EndToEnd(c)
			c07ProcessLevel(c)
		},
	})
}
