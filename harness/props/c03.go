package props

import (
	"bytes"
	"encoding/binary"
	"fmt"
	"math/rand"
	"net"
	"time"

	"verifharness/lab"
	"verifharness/sscodec"
	"verifharness/vk"
)

// C03: every forwarded UDP datagram is authenticated, attributed and intact.

type c03World struct {
	rig     *UDPRig
	keys    []KeySpec
	targets []*udpTarget // [0]=v4 A, [1]=v4 same IP other port, [2]=v4 other IP, [3]=v6
	salts   map[string]bool
}

func (w *c03World) close() {
	for _, t := range w.targets {
		t.Stop()
	}
	w.rig.Close(5 * time.Second)
}

func newC03World(c *vk.Ctx, r *rand.Rand, keys []KeySpec, natTimeout time.Duration) *c03World {
	w := &c03World{rig: StartUDPRig(keys, UDPRigOpts{NatTimeout: natTimeout}), keys: keys, salts: map[string]bool{}}
	b := byte(c.Batch)
	specs := []struct {
		name string
		ip   net.IP
		port int
	}{
		{"v4-A", net.IPv4(45, 66, b, 1).To4(), 7001},
		{"v4-A-port2", net.IPv4(45, 66, b, 1).To4(), 7002},
		{"v4-B", net.IPv4(45, 66, b, 2).To4(), 7001},
		{"v6", net.ParseIP(fmt.Sprintf("2606:4700::66:%x", int(b)+1)), 7001},
	}
	for _, s := range specs {
		t, err := startUDPTarget(s.name, s.ip, s.port)
		if err != nil {
			fatalf("udp target %s: %v", s.name, err)
		}
		w.targets = append(w.targets, t)
	}
	return w
}

// fence: a valid datagram from a dedicated client; once it arrives, everything the server
// received earlier has been handled (one receive loop; loopback delivery is synchronous).
func (w *c03World) fence(c *vk.Ctx, r *rand.Rand, fc *udpClient) bool {
	id := nextID(c.Batch)
	t := w.targets[0]
	fc.Send(ssUDP(fc.Key, randBytes(r, fc.Key.Codec().C.SaltSize), t.addr(), mkUDPPayload(id, 0, 0, 16)), w.rig.Addr4())
	if _, ok := t.waitID(id, udpB); !ok {
		c.Violation("C03/valid-datagram-not-forwarded", map[string]any{"what": "fence datagram", "key": fc.Key})
		return false
	}
	return true
}

func c03Run(c *vk.Ctx) {
	lab.MustSetup(c.RunDir)
	r := c.Rng
	for round := 0; round < c.N(3, 10); round++ {
		// key lists with AES keys placed before the right key, so that a failed in-place open
		// under an earlier key would clobber a shared buffer
		n := 2 + r.Intn(12)
		keys := RandKeys(r, n, nil, 0.15)
		if round%2 == 0 {
			for i := 0; i < n/2; i++ {
				keys[i].Cipher = pick(r, []string{"aes-128-gcm", "aes-192-gcm", "aes-256-gcm"})
			}
			keys[n-1].Cipher = "chacha20-ietf-poly1305"
		}
		w := newC03World(c, r, keys, 30*time.Second)
		dns, derr := lab.StartDNS()
		if derr != nil {
			fatalf("dns: %v", derr)
		}
		dns.SetScript(func(name string, qtype uint16, nth int) lab.DNSAnswer {
			for i, t := range w.targets {
				if name == fmt.Sprintf("t%d.c03.lab", i) {
					return lab.DNSAnswer{IPs: []net.IP{t.Addr.IP}}
				}
			}
			return lab.DNSAnswer{RCode: 3}
		})
		fc, err := newUDPClient(net.IPv4(198, 51, 100, 250).To4(), 0, keys[r.Intn(n)])
		if err != nil {
			fatalf("fence client: %v", err)
		}
		ok := c03Clients(c, r, w, fc)
		if ok {
			ok = c03HostnamePairs(c, r, w)
		}
		if ok {
			ok = c03ListReplaced(c, r, w, fc)
		}
		fc.Close()
		dns.Close()
		w.close()
		if !ok {
			return
		}
	}
	for i := 0; i < c.N(1, 3); i++ {
		if !c03TwoListeners(c, r, "C03") {
			return
		}
	}
}

func c03Clients(c *vk.Ctx, r *rand.Rand, w *c03World, fc *udpClient) bool {
	keys := w.keys
	nClients := c.N(10, 30)
	sizes := []int{0, 1, 5, 11, 12, 100, 1400, 9000, 30000, 65000}
	for ci := 0; ci < nClients; ci++ {
		var ip net.IP
		server := w.rig.Addr4()
		if r.Intn(4) == 0 {
			ip = net.ParseIP(fmt.Sprintf("2001:db8:c3::%x", 1+r.Intn(0xfff)))
			server = w.rig.Addr6()
		} else {
			ip = net.IPv4(198, 51, 100, byte(1+r.Intn(200))).To4()
		}
		keyPos := r.Intn(len(keys))
		if r.Intn(3) == 0 {
			keyPos = len(keys) - 1
		}
		k := keys[keyPos]
		cl, err := newUDPClient(ip, 0, k)
		if err != nil {
			c.Inconclusive("client bind: " + err.Error())
			continue
		}
		clientAddr := cl.Addr.String()
		natBefore := len(w.rig.Nat.All())
		assocBefore := len(w.rig.Rec.ByClient(clientAddr))

		// --- invalid datagrams from a fresh address: no traffic, no association, no socket ---
		nInv := r.Intn(4)
		for i := 0; i < nInv; i++ {
			var pkt []byte
			var class string
			ss := k.Codec().C.SaltSize
			switch r.Intn(5) {
			case 0:
				pkt, class = randBytes(r, r.Intn(200)), "random"
			case 1:
				pkt, class = randBytes(r, r.Intn(ss)), "shorter-than-salt"
			case 2:
				pkt, class = randBytes(r, ss+r.Intn(16)), "shorter-than-salt+tag"
			case 3:
				bad := KeySpec{ID: "nc", Cipher: k.Cipher, Secret: k.Secret + "?"}
				pkt, class = ssUDP(bad, randBytes(r, ss), w.targets[0].addr(), mkUDPPayload(nextID(c.Batch), 1, 20, 40)), "not-configured-key"
			default:
				good := ssUDP(k, randBytes(r, ss), w.targets[0].addr(), mkUDPPayload(nextID(c.Batch), 1, 20, 40))
				good[r.Intn(len(good))] ^= 1 << uint(r.Intn(8))
				pkt, class = good, "bitflip"
			}
			tb := w.targets[0].Count()
			cl.Send(pkt, server)
			if !w.fence(c, r, fc) {
				return false
			}
			c.Eval("fresh-address|invalid/" + class + "|" + k.Cipher)
			if got := len(w.rig.Rec.ByClient(clientAddr)); got != assocBefore {
				c.Violation("C03/association-created-by-unauthenticated-datagram", map[string]any{"class": class, "client": clientAddr})
				return false
			}
			if w.targets[0].Count() != tb+1 { // +1 = the fence itself
				c.Violation("C03/unauthenticated-datagram-caused-outbound-traffic", map[string]any{"class": class, "target_datagrams": w.targets[0].Count() - tb - 1})
				return false
			}
			c.Count("invalid_from_fresh_address_dropped", 1)
		}
		if nInv > 0 && len(w.rig.Nat.All()) > natBefore+0 {
			// (the fence client's own association was created earlier; a new socket here belongs to nobody valid)
			for _, s := range w.rig.Nat.All()[natBefore:] {
				_ = s
			}
		}

		// --- valid sequence on the association ---
		replySizes := map[uint64]int{}
		natPort := 0
		nSend := 2 + r.Intn(6)
		for si := 0; si < nSend; si++ {
			tgt := w.targets[r.Intn(len(w.targets))]
			size := pick(r, sizes)
			if size > 20000 && r.Intn(3) > 0 {
				size = 200
			}
			// the same destination in every form a client may encode it
			addrBytes, form := tgt.addr(), "ip"
			switch x := r.Intn(8); {
			case x == 0 && tgt.Addr.IP.To4() != nil:
				addrBytes, form = sscodec.AddrIP(tgt.Addr.IP, tgt.Addr.Port, true), "ipv4-mapped-ipv6"
			case x == 1:
				addrBytes, form = sscodec.AddrDomain(tgt.Addr.IP.String(), tgt.Addr.Port), "ip-literal-as-domain"
			case x == 2:
				for ti, t := range w.targets {
					if t == tgt {
						addrBytes, form = sscodec.AddrDomain(fmt.Sprintf("t%d.c03.lab", ti), tgt.Addr.Port), "host-name"
					}
				}
			}
			if size == 65000 {
				size = 65507 - k.Codec().C.SaltSize - 16 - len(addrBytes) // the largest datagram that fits
			}
			replies := r.Intn(3)
			rsize := pick(r, []int{8, 100, 1400, 20000})
			if r.Intn(6) == 0 {
				// around the packing limits: such a reply may be dropped, but never altered
				rsize = pick(r, []int{65440, 65452, 65453, 65460, 65469, 65470, 65480, 65507})
			}
			id := nextID(c.Batch)
			replySizes[id] = rsize
			payload := mkUDPPayload(id, replies, rsize, size)
			c.Progress("C03 client=%s key=%s tgt=%s size=%d replies=%d", clientAddr, k.ID, tgt.Name, size, replies)
			before := tgt.Count()
			cl.Send(ssUDP(k, randBytes(r, k.Codec().C.SaltSize), addrBytes, payload), server)
			c.Eval(fmt.Sprintf("valid|%s|pos=%s|size=%s|%s|first=%v|addr=%s", k.Cipher, posClass(keyPosOf(keys, k), len(keys)), sizeBucket(size), tgt.Name, si == 0, form))
			c.Count("destination_form_"+form, 1)
			var got recvEv
			if size >= 11 {
				g, ok := tgt.waitID(id, udpB)
				if !ok {
					c.Violation("C03/valid-datagram-not-forwarded", map[string]any{"client": clientAddr, "key": k, "size": size, "target": tgt.Name, "first_on_association": si == 0})
					return false
				}
				got = g
			} else {
				if !tgt.WaitCount(before+1, udpB) {
					c.Violation("C03/valid-datagram-not-forwarded", map[string]any{"client": clientAddr, "key": k, "size": size, "target": tgt.Name})
					return false
				}
				got = tgt.Snap()[before]
			}
			if !bytes.Equal(got.Data, payload) {
				c.Violation("C03/forwarded-payload-differs", map[string]any{"size": size, "got_len": len(got.Data), "first_diff": firstDiff(got.Data, payload), "key": k, "destination_form": form})
				return false
			}
			c.Count("valid_forwarded_intact", 1)
			if _, p, err := net.SplitHostPort(got.From); err == nil {
				fmt.Sscan(p, &natPort)
			}
			// attribution
			as := w.rig.Rec.ByClient(clientAddr)
			if len(as) != assocBefore+1 {
				c.Violation("C03/association-count-for-client", map[string]any{"client": clientAddr, "associations": len(as) - assocBefore})
				return false
			}
			if !IDsFor(keys, k)[as[len(as)-1].Key] {
				c.Violation("C03/association-attributed-to-wrong-key", map[string]any{"reported": as[len(as)-1].Key, "expected": vk.SortedKeys(IDsFor(keys, k))})
				return false
			}
			// replies: under the association key, fresh salt, true sender address, intact payload
			for i := 1; i <= replies && size >= 11; i++ {
				rid := id | uint64(i)<<56
				within := udpB
				if rsize > 65000 {
					within = 300 * time.Millisecond // may legitimately not fit: integrity is checked below if it arrives
				}
				d, ok := cl.waitReply(k, rid, within)
				if !ok && rsize > 65000 {
					c.Count("oversized_replies_not_delivered", 1)
					continue
				}
				if !ok {
					c.Violation("C03/reply-not-relayed-under-association-key", map[string]any{"client": clientAddr, "key": k, "target": tgt.Name, "reply_size": rsize})
					return false
				}
				want := replyPayload(id, i, rsize)
				if !bytes.Equal(d.Payload, want) {
					c.Violation("C03/reply-payload-differs", map[string]any{"first_diff": firstDiff(d.Payload, want), "got_len": len(d.Payload), "want_len": len(want)})
					return false
				}
				wantType := byte(1)
				if tgt.Addr.IP.To4() == nil {
					wantType = 4
				}
				if d.AddrType != wantType || !net.ParseIP(d.Host).Equal(tgt.Addr.IP) || d.Port != tgt.Addr.Port {
					c.Violation("C03/reply-does-not-carry-true-sender-address", map[string]any{"got": fmt.Sprintf("type %d %s:%d", d.AddrType, d.Host, d.Port), "sender": tgt.Addr.String(), "target": tgt.Name})
					return false
				}
				c.Count("replies_verified", 1)
			}
			// wrong-key datagrams on the live association must not be forwarded
			if r.Intn(3) == 0 && len(keys) > 1 {
				other := keys[(keyPosOf(keys, k)+1+r.Intn(len(keys)-1))%len(keys)]
				class := "other-configured-key"
				if other.Material() == k.Material() {
					class = "same-material-other-id"
				}
				oid := nextID(c.Batch)
				tb := tgt.Count()
				cl.Send(ssUDP(other, randBytes(r, other.Codec().C.SaltSize), tgt.addr(), mkUDPPayload(oid, 0, 0, 30)), server)
				cl.Send(randBytes(r, 100), server)
				if !w.fence(c, r, fc) {
					return false
				}
				c.Eval("live-association|" + class + "|" + k.Cipher + "->" + other.Cipher)
				if class == "other-configured-key" {
					if len(tgt.findID(oid)) != 0 {
						c.Violation("C03/datagram-under-other-key-forwarded-on-live-association", map[string]any{"association_key": k, "datagram_key": other})
						return false
					}
					c.Count("wrong_key_on_live_association_dropped", 1)
				}
				_ = tb
			}
		}
		// a datagram from a zoned IPv6 link-local sender (a host on the local link) reaching the
		// client's outbound socket: relayed with the sender's IPv6 address (type 4), no zone
		if natPort != 0 && r.Intn(2) == 0 {
			if a0, a1, err := lab.LinkLocal(); err == nil {
				ll, err := net.ListenUDP("udp6", &net.UDPAddr{IP: a0.IP, Zone: a0.Zone})
				if err == nil {
					id := nextID(c.Batch)
					p := replyPayload(id, 1, 40+r.Intn(500))
					ll.WriteToUDP(p, &net.UDPAddr{IP: a1.IP, Zone: a0.Zone, Port: natPort})
					d, ok := cl.waitReply(k, id|1<<56, udpB)
					c.Eval("reply-source|zoned-link-local|" + k.Cipher)
					if !ok {
						c.Violation("C03/reply-from-link-local-sender-not-relayed", map[string]any{"sender": ll.LocalAddr().String(), "nat_port": natPort})
						ll.Close()
						return false
					}
					if d.AddrType != 4 || !net.ParseIP(d.Host).Equal(a0.IP) || d.Port != ll.LocalAddr().(*net.UDPAddr).Port || !bytes.Equal(d.Payload, p) {
						c.Violation("C03/reply-does-not-carry-true-sender-address", map[string]any{"got": fmt.Sprintf("type %d %q:%d", d.AddrType, d.Host, d.Port), "sender": ll.LocalAddr().String()})
						ll.Close()
						return false
					}
					c.Count("zoned_link_local_replies_verified", 1)
					ll.Close()
				}
			}
		}
		// every datagram this client received: opens under its key, salt never seen before
		for _, g := range cl.Snap() {
			d, err := decodeReply(k, g.Data)
			if err != nil {
				c.Violation("C03/client-received-datagram-not-under-association-key", map[string]any{"client": clientAddr, "key": k, "err": err.Error()})
				return false
			}
			if w.salts[d.Salt] {
				c.Violation("C03/reply-salt-reused", map[string]any{"salt": fmt.Sprintf("%x", d.Salt)})
				return false
			}
			w.salts[d.Salt] = true
			// whatever arrives is exactly what some target sent (never a truncated or altered payload)
			if len(d.Payload) >= 8 {
				rid := binary.BigEndian.Uint64(d.Payload)
				if size, known := replySizes[rid&^(uint64(0xff)<<56)]; known {
					want := replyPayload(rid&^(uint64(0xff)<<56), int(rid>>56), size)
					if !bytes.Equal(d.Payload, want) {
						c.Violation("C03/reply-payload-differs", map[string]any{"got_len": len(d.Payload), "sent_len": len(want), "first_diff": firstDiff(d.Payload, want), "client": clientAddr})
						return false
					}
					if size > 65000 {
						c.Count("boundary_size_replies_intact", 1)
					}
				}
			}
		}
		if ci < 2 {
			c.Sample(map[string]any{"client": clientAddr, "key": k, "key_position": keyPosOf(keys, k), "list_len": len(keys), "datagrams_received": cl.Count()})
		}
		cl.Close()
	}
	_ = binary.BigEndian
	_ = sscodec.TagSize
	return true
}

// c03HostnamePairs: a datagram whose destination is a host name, immediately followed by another
// datagram of the same client (no waiting in between): both arrive with exactly their payloads.
func c03HostnamePairs(c *vk.Ctx, r *rand.Rand, w *c03World) bool {
	for i := 0; i < c.N(6, 20); i++ {
		k := w.keys[r.Intn(len(w.keys))]
		cl, err := newUDPClient(net.IPv4(198, 51, 100, byte(1+r.Intn(200))).To4(), 0, k)
		if err != nil {
			continue
		}
		ss := k.Codec().C.SaltSize
		type sent struct {
			id      uint64
			tgt     *udpTarget
			payload []byte
		}
		var all []sent
		// the association exists already
		id0 := nextID(c.Batch)
		cl.Send(ssUDP(k, randBytes(r, ss), w.targets[0].addr(), mkUDPPayload(id0, 0, 0, 20)), w.rig.Addr4())
		w.targets[0].waitID(id0, udpB)
		for j := 0; j < 10; j++ {
			ti := r.Intn(3) // the three IPv4 targets
			idA, idB := nextID(c.Batch), nextID(c.Batch)
			pa, pb := mkUDPPayload(idA, 0, 0, 40+r.Intn(400)), mkUDPPayload(idB, 0, 0, 40+r.Intn(400))
			cl.Send(ssUDP(k, randBytes(r, ss), sscodec.AddrDomain(fmt.Sprintf("t%d.c03.lab", ti), w.targets[ti].Addr.Port), pa), w.rig.Addr4())
			tj := r.Intn(3)
			cl.Send(ssUDP(k, randBytes(r, ss), w.targets[tj].addr(), pb), w.rig.Addr4())
			all = append(all, sent{idA, w.targets[ti], pa}, sent{idB, w.targets[tj], pb})
		}
		for _, s := range all {
			g, ok := s.tgt.waitID(s.id, udpB)
			c.Eval("hostname-then-literal|back-to-back|" + k.Cipher)
			if !ok {
				c.Violation("C03/valid-datagram-not-forwarded", map[string]any{"phase": "host-name destination followed at once by another datagram", "target": s.tgt.Name})
				cl.Close()
				return false
			}
			if !bytes.Equal(g.Data, s.payload) {
				c.Violation("C03/forwarded-payload-differs", map[string]any{"phase": "host-name destination followed at once by another datagram", "first_diff": firstDiff(g.Data, s.payload)})
				cl.Close()
				return false
			}
		}
		// nothing else arrived at the targets under these ids (no duplicates)
		for _, s := range all {
			if n := len(s.tgt.findID(s.id)); n != 1 {
				c.Violation("C03/datagram-forwarded-more-than-once", map[string]any{"times": n})
				cl.Close()
				return false
			}
		}
		c.Count("hostname_pairs_intact", int64(len(all)/2))
		cl.Close()
	}
	return true
}

// c03ListReplaced: the key list is replaced; keys that were removed no longer open
// associations - also not from a host that used them before - and kept keys still do.
func c03ListReplaced(c *vk.Ctx, r *rand.Rand, w *c03World, fc *udpClient) bool {
	if len(w.keys) < 3 {
		return true
	}
	removed := w.keys[0]
	var kept []KeySpec
	for _, k := range w.keys[1:] {
		if k.Material() != removed.Material() {
			kept = append(kept, k)
		}
	}
	if len(kept) == 0 || kept[0].ID == fc.Key.ID && len(kept) == 1 {
		return true
	}
	ip := net.IPv4(198, 51, 100, byte(201+r.Intn(40))).To4()
	// the host uses the key that is about to be removed
	before, err := newUDPClient(ip, 0, removed)
	if err != nil {
		return true
	}
	id := nextID(c.Batch)
	before.Send(ssUDP(removed, randBytes(r, removed.Codec().C.SaltSize), w.targets[0].addr(), mkUDPPayload(id, 0, 0, 20)), w.rig.Addr4())
	if _, ok := w.targets[0].waitID(id, udpB); !ok {
		c.Violation("C03/valid-datagram-not-forwarded", map[string]any{"phase": "before list replacement"})
		return false
	}
	before.Close()
	w.rig.CL.Update(BuildList(kept))
	// a fresh fence client under a kept key (the old fence client's association stays bound to
	// the key that opened it, which may just have been removed)
	fc2, err := newUDPClient(net.IPv4(198, 51, 100, 249).To4(), 0, kept[0])
	if err != nil {
		return true
	}
	defer fc2.Close()
	fc = fc2
	// same host, new port, removed key: nothing may be forwarded, no association
	after, err := newUDPClient(ip, 0, removed)
	if err != nil {
		return true
	}
	defer after.Close()
	id2 := nextID(c.Batch)
	after.Send(ssUDP(removed, randBytes(r, removed.Codec().C.SaltSize), w.targets[0].addr(), mkUDPPayload(id2, 0, 0, 20)), w.rig.Addr4())
	if !w.fence(c, r, fc) {
		return false
	}
	c.Eval("list-replaced|removed-key-from-known-host|" + removed.Cipher)
	if len(w.targets[0].findID(id2)) != 0 || len(w.rig.Rec.ByClient(after.Addr.String())) != 0 {
		c.Violation("C03/removed-key-still-opens-associations-after-list-replacement", map[string]any{"key": removed, "host": ip.String()})
		return false
	}
	// a kept key works from that host
	k := kept[r.Intn(len(kept))]
	ok2, err := newUDPClient(ip, 0, k)
	if err == nil {
		defer ok2.Close()
		id3 := nextID(c.Batch)
		ok2.Send(ssUDP(k, randBytes(r, k.Codec().C.SaltSize), w.targets[0].addr(), mkUDPPayload(id3, 0, 0, 20)), w.rig.Addr4())
		if _, ok := w.targets[0].waitID(id3, udpB); !ok {
			c.Violation("C03/valid-datagram-not-forwarded", map[string]any{"phase": "kept key after list replacement", "key": k})
			return false
		}
	}
	c.Count("list_replacements_checked", 1)
	return true
}

func keyPosOf(keys []KeySpec, k KeySpec) int {
	for i, o := range keys {
		if o.ID == k.ID {
			return i
		}
	}
	return -1
}

func posClass(pos, n int) string {
	switch {
	case pos == 0:
		return "front"
	case pos == n-1:
		return "last"
	}
	return "middle"
}

func init() {
	vk.Register(&vk.Spec{
		ID:          "C03",
		Level:       "exploration",
		Rule:        "per round a PRNG key list (2..13 keys, mixed ciphers, AES keys placed before the matching key, duplicates) serves 10..30 client addresses (v4/v6); each client first sends invalid datagrams (random, shorter than salt / salt+tag, not-configured key, bit flip), then a valid sequence to four targets (two ports on one IPv4, another IPv4, IPv6) with payload sizes 0..the largest that fits and 0..2 replies of 8..20000 bytes, interleaved with datagrams under another configured key on the live association; every payload carries a unique id; the destination is written in every form (IP, IPv4-mapped IPv6, IP literal as domain, host name); one packet handler serving TWO listeners (as the binary wires a services: entry): 8 concurrent clients with equal-size datagrams, one client socket on both listeners under two keys; class = (phase, cipher, key position, size bucket, target, first-on-association)",
		Assumptions: []string{"a 'fence' datagram orders observations: when it reaches the target, everything the server received earlier has been handled (single receive loop, synchronous loopback delivery)", "B = 10 s bounded-progress restatement"},
		Batches:     func(t string) int { return map[string]int{"quick": 6, "thorough": 24}[t] },
		Parallel:    func(t string) int { return 6 },
		Timeout:     func(t string) time.Duration { return 25 * time.Minute },
		Run: func(c *vk.Ctx) {
			c.Require("valid_forwarded_intact")
			c.Require("replies_verified")
			c.Require("invalid_from_fresh_address_dropped")
			c.Require("wrong_key_on_live_association_dropped")
			c.Require("zoned_link_local_replies_verified")
			c.Require("hostname_pairs_intact")
			c.Require("list_replacements_checked")
			c.Require("two_listener_datagrams_intact")
			c.Require("one_socket_two_listeners_checked")
			c.Require("destination_form_ipv4-mapped-ipv6")
			c.Require("destination_form_ip-literal-as-domain")
			c03Run(c)
		},
	})
}
