package props

import (
	"bytes"
	"fmt"
	"time"

	"verifharness/vk"
)

// c07ProcessLevel: the real binary with --replay_history N. Original and replay are placed on
// different listeners, on different services that share the access key, and on both sides of
// SIGHUP reloads (which change other services).
func c07ProcessLevel(c *vk.Ctx) {
	r := c.Rng
	hub := StartTargetHub(0)
	defer hub.Close()
	hub.SetDefault(echoTCP)
	base := 13000 + c.Batch*20
	k1 := KeySpec{"shared-key", pick(r, cipherNames), randSecret(r)}
	k2 := KeySpec{"second-key", pick(r, cipherNames), randSecret(r)}
	L := func(i int) string { return fmt.Sprintf("203.0.113.60:%d", base+i) }
	mk := func(gen int) ConfSpec {
		cf := ConfSpec{Services: []SvcSpec{
			{Listeners: []LnSpec{{"tcp", L(1)}, {"tcp", L(2)}}, Keys: []KeySpec{k1, k2}},
			{Listeners: []LnSpec{{"tcp", L(3)}}, Keys: []KeySpec{k1}}, // another service, same id and secret
		}}
		// the same key once more on a port of the legacy `keys:` format
		cf.Legacy = []LegacyKey{{k1, base + 9}}
		if gen%2 == 1 {
			cf.Services = append(cf.Services, SvcSpec{Listeners: []LnSpec{{"tcp", L(4 + gen%3)}}, Keys: []KeySpec{{fmt.Sprintf("gen%d", gen), pick(r, cipherNames), randSecret(r)}}})
		}
		return cf
	}
	lnFor := func(k KeySpec) string {
		if k.ID == k2.ID {
			return L(1 + r.Intn(2))
		}
		return L([]int{1, 2, 3, 9, 9}[r.Intn(5)])
	}
	N := 6 + r.Intn(10) // small, so that the history rotates several times during the run
	// (every other batch with debug logging: what is refused, served and reported does not depend on the log level)
	srv, err := StartServer(c.RunDir, mk(0), ServerOpts{ReplayHistory: N, Verbose: c.Batch%2 == 1})
	if err != nil {
		c.Violation("C07/process/server-does-not-start", err.Error())
		if srv != nil {
			srv.Stop()
		}
		return
	}
	defer srv.Stop()
	type hs struct {
		stream  []byte
		key     KeySpec
		at      int
		payload []byte
	}
	var hist []hs
	count := 0
	present := func(listener string, k KeySpec, stream []byte, payload []byte) (served bool, ok bool) {
		cl, err := DialSS(listener, randSrc4(r), k, nil)
		if err != nil {
			c.Violation("C07/process/connect-failed", err.Error())
			return false, false
		}
		defer cl.Conn.Close()
		cl.WriteRaw(stream)
		cl.Conn.CloseWrite()
		got, _ := cl.ReadAllPlain(time.Now().Add(20 * time.Second))
		count++
		return bytes.Equal(got, payload) && len(payload) > 0, true
	}
	gen := 0
	notServed := 0
	defer func() {
		// every refused presentation was a connection: opened, refused as a replay, reported closed once
		var got float64
		for dl := time.Now().Add(10 * time.Second); time.Now().Before(dl); time.Sleep(50 * time.Millisecond) {
			m, err := srv.Metrics()
			if err != nil {
				continue
			}
			got = metricSum(m, "shadowsocks_tcp_connections_closed", map[string]string{"status": "ERR_REPLAY_CLIENT"})
			if int(got) == notServed {
				break
			}
		}
		if srv.Alive() && int(got) != notServed && notServed > 0 {
			c.Violation("C07/process/refused-replays-not-reported-closed", map[string]any{"refused_presentations": notServed, "closed_with_ERR_REPLAY_CLIENT": got, "verbose": c.Batch%2 == 1})
		} else if notServed > 0 {
			c.Count(fmt.Sprintf("process_refused_replays_reported_verbose=%v", c.Batch%2 == 1), int64(notServed))
		}
	}()
	for step := 0; step < c.N(60, 200); step++ {
		switch x := r.Intn(10); {
		case x < 4 || len(hist) == 0: // fresh handshake on a random listener
			k := k1
			if r.Intn(3) == 0 {
				k = k2
			}
			ln := lnFor(k)
			caseN := nextID(c.Batch)
			payload := putU64(caseN)
			cl, err := DialSS(ln, nil, k, randBytes(r, k.Codec().C.SaltSize))
			if err != nil {
				c.Violation("C07/process/connect-failed", err.Error())
				return
			}
			stream := cl.Enc.Encode(append(sscodecAddr(caseN, hub.Port), payload...), nil)
			cl.Conn.Close()
			served, ok := present(ln, k, stream, payload)
			if !ok {
				return
			}
			c.Eval("process|fresh|" + k.Cipher)
			if !served {
				c.Violation("C07/process/fresh-handshake-refused", map[string]any{"listener": ln, "key": k.ID})
				return
			}
			hist = append(hist, hs{stream, k, count, payload})
			c.Count("process_fresh_served", 1)
		case x < 8: // replay an earlier handshake somewhere else
			i := r.Intn(len(hist))
			h := hist[i]
			ln := lnFor(h.key)
			dist := count - h.at
			served, ok := present(ln, h.key, h.stream, h.payload)
			if !ok {
				return
			}
			if !served {
				notServed++
			}
			hist[i].at = count
			c.Eval(fmt.Sprintf("process|replay|within=%v|gen=%d", dist < N, gen))
			if dist < N {
				if served {
					c.Violation("C07/process/replay-accepted", map[string]any{"listener": ln, "key": h.key.ID, "handshakes_in_between": dist, "history": N, "reloads_so_far": gen})
					return
				}
				c.Count("process_replays_refused", 1)
				if ln == L(9) {
					c.Count("process_replays_refused_on_legacy_port", 1)
				}
				if gen > 0 {
					c.Count("process_replays_refused_across_reload", 1)
				}
			}
		default:
			gen++
			res, err := srv.Reload([]byte(mk(gen).YAML()), 60*time.Second)
			if err != nil || res != "ok" {
				c.Violation("C07/process/reload-failed", fmt.Sprint(res, err))
				return
			}
			c.Count("process_reloads", 1)
		}
	}
}
