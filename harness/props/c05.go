package props

import (
	"bufio"
	"encoding/binary"
	"fmt"
	"math/rand"
	"net"
	"os"
	"os/exec"
	"regexp"
	"strings"
	"sync"
	"time"

	onet "github.com/Jigsaw-Code/outline-ss-server/net"

	"verifharness/lab"
	"verifharness/sscodec"
	"verifharness/vk"
)

// C05: the proxy never sends traffic to non-public destinations.

type cidr struct {
	n    *net.IPNet
	name string
}

func mustCIDRs(list ...string) []cidr {
	var out []cidr
	for _, s := range list {
		parts := strings.SplitN(s, "=", 2)
		_, n, err := net.ParseCIDR(parts[1])
		if err != nil {
			panic(err)
		}
		out = append(out, cidr{n, parts[0]})
	}
	return out
}

// The block list of the property statement (MUST-REJECT), written out independently of Go's
// net.IP predicates and of the repository's own list.
var forbidden4 = mustCIDRs("loopback=127.0.0.0/8", "unspecified=0.0.0.0/32", "link-local=169.254.0.0/16", "multicast=224.0.0.0/4", "broadcast=255.255.255.255/32",
	"rfc1918-10=10.0.0.0/8", "rfc1918-172=172.16.0.0/12", "rfc1918-192=192.168.0.0/16", "cgnat=100.64.0.0/10")
var forbidden6 = mustCIDRs("loopback6=::1/128", "unspecified6=::/128", "link-local6=fe80::/10", "multicast6=ff00::/8", "ula=fc00::/7")

// Other IANA special-purpose blocks: neither forbidden nor required by the property (DON'T-CARE).
var special4 = mustCIDRs("this-net=0.0.0.0/8", "ietf-protocol=192.0.0.0/24", "test-net-1=192.0.2.0/24", "as112=192.31.196.0/24", "amt=192.52.193.0/24", "6to4-relay=192.88.99.0/24",
	"as112-dd=192.175.48.0/24", "benchmark=198.18.0.0/15", "test-net-2=198.51.100.0/24", "test-net-3=203.0.113.0/24", "reserved=240.0.0.0/4")
var special6 = mustCIDRs("nat64=64:ff9b::/96", "nat64-local=64:ff9b:1::/48", "discard=100::/64", "ietf-protocol6=2001::/23", "doc=2001:db8::/32", "6to4=2002::/16", "as112-6=2620:4f:8000::/48", "doc2=3fff::/20",
	"v4-compatible=::/96")

// destVerdict: "reject" (the property forbids it), "accept" (ordinary public), "dontcare".
func destVerdict(ip net.IP) (verdict, class string) {
	if v4 := ip.To4(); v4 != nil { // plain or IPv4-mapped
		for _, c := range forbidden4 {
			if c.n.Contains(v4) {
				return "reject", c.name
			}
		}
		for _, c := range special4 {
			if c.n.Contains(v4) {
				return "dontcare", c.name
			}
		}
		return "accept", "public4"
	}
	ip16 := ip.To16()
	if ip16 == nil {
		return "reject", "invalid"
	}
	for _, c := range forbidden6 {
		if c.n.Contains(ip16) {
			return "reject", c.name
		}
	}
	for _, c := range special6 {
		if c.n.Contains(ip16) {
			return "dontcare", c.name
		}
	}
	if ip16[0]&0xe0 == 0x20 { // 2000::/3
		return "accept", "public6"
	}
	return "dontcare", "unallocated6"
}

func c05Check(c *vk.Ctx, ip net.IP, form string) bool {
	verdict, class := destVerdict(ip)
	err := onet.RequirePublicIP(ip)
	switch {
	case verdict == "reject" && err == nil:
		c.Violation("C05/validator-accepts-forbidden-address", map[string]any{"ip": ip.String(), "class": class, "form": form, "len": len(ip)})
		return false
	case verdict == "accept" && err != nil:
		c.Violation("C05/validator-rejects-public-address", map[string]any{"ip": ip.String(), "class": class, "form": form, "err": err.Error()})
		return false
	}
	return true
}

func mapped(v4 net.IP) net.IP { return v4.To16() }

// c05Sweep: the validator against the independent classifier.
func c05Sweep(c *vk.Ctx) bool {
	r := c.Rng
	n := int64(0)
	classes := map[string]int64{}
	one := func(ip net.IP, form string) bool {
		n++
		v, cl := destVerdict(ip)
		classes["sweep|"+v+"|"+cl+"|"+form]++
		return c05Check(c, ip, form)
	}
	v4 := func(u uint32) bool {
		b := make(net.IP, 4)
		binary.BigEndian.PutUint32(b, u)
		return one(b, "4-byte") && one(mapped(b), "mapped-16-byte")
	}
	// every block boundary +-2
	for _, set := range [][]cidr{forbidden4, special4} {
		for _, cb := range set {
			base := binary.BigEndian.Uint32(cb.n.IP.To4())
			ones, _ := cb.n.Mask.Size()
			last := base | (uint32(0xffffffff) >> uint(ones))
			if ones == 0 {
				last = 0xffffffff
			}
			for d := -2; d <= 2; d++ {
				if !v4(base+uint32(d)) || !v4(last+uint32(d)) {
					return false
				}
			}
		}
	}
	// first and last of every /8
	for a := 0; a < 256; a++ {
		if !v4(uint32(a)<<24) || !v4(uint32(a)<<24|0xffffff) || !v4(uint32(a)<<24|uint32(r.Intn(1<<24))) {
			return false
		}
	}
	for i := 0; i < c.N(200000, 2000000); i++ {
		if !v4(r.Uint32()) {
			return false
		}
	}
	// IPv6 by prefix class
	for _, set := range [][]cidr{forbidden6, special6} {
		for _, cb := range set {
			ones, _ := cb.n.Mask.Size()
			for i := 0; i < 2000; i++ {
				ip := make(net.IP, 16)
				r.Read(ip)
				for bit := 0; bit < ones; bit++ {
					m := byte(0x80 >> uint(bit%8))
					ip[bit/8] = ip[bit/8]&^m | cb.n.IP[bit/8]&m
				}
				if !one(ip, "16-byte") {
					return false
				}
			}
			// first/last and neighbours
			first := append(net.IP(nil), cb.n.IP.To16()...)
			last := append(net.IP(nil), first...)
			for bit := ones; bit < 128; bit++ {
				last[bit/8] |= 0x80 >> uint(bit%8)
			}
			for _, ip := range []net.IP{first, last, incIP(last), decIP(first)} {
				if ip != nil && !one(ip, "16-byte") {
					return false
				}
			}
		}
	}
	for i := 0; i < c.N(200000, 5000000); i++ {
		ip := make(net.IP, 16)
		r.Read(ip)
		switch i % 4 {
		case 0:
			ip[0] = 0x20 | ip[0]&0x1f // 2000::/3
		case 1:
			ip[0], ip[1] = 0xfe, 0x80|ip[1]&0x3f
		case 2:
			ip[0] = 0xfc | ip[0]&1
		}
		if !one(ip, "16-byte") {
			return false
		}
	}
	// a lattice over the allocated global unicast space: the first hextet of every RIR block in use
	// (2001:: .. 2c0f::) x the second hextet in steps of 0x40, random below: a wrong block of /26 or
	// shorter anywhere in there is hit
	for _, h1 := range []int{0x2001, 0x2002, 0x2003, 0x2400, 0x2404, 0x2600, 0x2606, 0x2607, 0x2620, 0x2800, 0x2a00, 0x2a02, 0x2c00, 0x2c0f} {
		for h2 := 0; h2 < 0x10000; h2 += 0x40 {
			ip := make(net.IP, 16)
			r.Read(ip)
			ip[0], ip[1] = byte(h1>>8), byte(h1)
			ip[2], ip[3] = byte(h2>>8), byte(h2)|ip[3]&0x3f
			if !one(ip, "16-byte") {
				return false
			}
		}
	}
	if !one(nil, "nil") || !one(net.IP{}, "empty") || !one(net.IP{1, 2, 3}, "3-byte") {
		return false
	}
	for k, v := range classes {
		c.EvalN(k, v)
	}
	c.Count("validator_addresses_checked", n)
	return true
}

func incIP(ip net.IP) net.IP {
	out := append(net.IP(nil), ip...)
	for i := len(out) - 1; i >= 0; i-- {
		out[i]++
		if out[i] != 0 {
			return out
		}
	}
	return nil
}
func decIP(ip net.IP) net.IP {
	out := append(net.IP(nil), ip...)
	for i := len(out) - 1; i >= 0; i-- {
		out[i]--
		if out[i] != 0xff {
			return out
		}
	}
	return nil
}

type range4 struct {
	lo, hi  uint32
	verdict string
	name    string
}

// ranges4 is the same classification as destVerdict for IPv4, as integer ranges (fast path for
// the exhaustive sweep); forbidden blocks first, so they win over overlapping special blocks.
var ranges4 = func() []range4 {
	var out []range4
	for i, set := range [][]cidr{forbidden4, special4} {
		for _, cb := range set {
			base := binary.BigEndian.Uint32(cb.n.IP.To4())
			ones, _ := cb.n.Mask.Size()
			v := "reject"
			if i == 1 {
				v = "dontcare"
			}
			out = append(out, range4{base, base | uint32(uint64(0xffffffff)>>uint(ones)), v, cb.name})
		}
	}
	return out
}()

func verdict4(u uint32) (string, string) {
	for i := range ranges4 {
		if u >= ranges4[i].lo && u <= ranges4[i].hi {
			return ranges4[i].verdict, ranges4[i].name
		}
	}
	return "accept", "public4"
}

// SweepIPv4 enumerates every IPv4 address in [lo, hi) in 4-byte and IPv4-mapped form against
// RequirePublicIP; returns the number of addresses and a description of the first disagreement.
func SweepIPv4(lo, hi uint64) (uint64, string) {
	b := make(net.IP, 4)
	m := make(net.IP, 16)
	copy(m, net.IPv4(0, 0, 0, 0).To16())
	// the fast integer-range classifier agrees with the CIDR-based one on the range boundaries
	for _, rg := range ranges4 {
		for _, u := range []uint32{rg.lo - 1, rg.lo, rg.hi, rg.hi + 1} {
			binary.BigEndian.PutUint32(b, u)
			v1, _ := destVerdict(b)
			if v2, _ := verdict4(u); v1 != v2 {
				return 0, fmt.Sprintf("classifier self-check failed for %s: %s vs %s", b, v1, v2)
			}
		}
	}
	for u := lo; u < hi; u++ {
		binary.BigEndian.PutUint32(b, uint32(u))
		copy(m[12:], b)
		verdict, class := verdict4(uint32(u))
		e1 := onet.RequirePublicIP(b)
		e2 := onet.RequirePublicIP(m)
		if (verdict == "reject" && (e1 == nil || e2 == nil)) || (verdict == "accept" && (e1 != nil || e2 != nil)) {
			return u - lo, fmt.Sprintf("ip=%s class=%s verdict=%s plain_err=%v mapped_err=%v", b, class, verdict, e1, e2)
		}
	}
	return hi - lo, ""
}

// c05Exhaustive4 runs the sweep of [lo, hi) in the race-free helper binary.
func c05Exhaustive4(c *vk.Ctx, lo, hi uint64) bool {
	bin := os.Getenv("VERIF_SWEEP_BIN")
	if bin == "" {
		c.Inconclusive("VERIF_SWEEP_BIN not set: exhaustive IPv4 sweep skipped")
		return true
	}
	out, err := exec.Command(bin, fmt.Sprint(lo), fmt.Sprint(hi)).CombinedOutput()
	res := strings.TrimSpace(string(out))
	if strings.HasPrefix(res, "DISAGREE") {
		c.Violation("C05/validator-disagrees-on-ipv4-address", res)
		return false
	}
	if err != nil || !strings.HasPrefix(res, "OK ") {
		c.Inconclusive(fmt.Sprintf("sweep helper failed: %v %s", err, res))
		return true
	}
	c.EvalN("exhaustive-ipv4|both-forms", int64(hi-lo))
	c.Count("ipv4_addresses_enumerated", int64(hi-lo))
	return true
}

// ---------- end to end ----------

type destCase struct {
	Name    string
	Addr    []byte   // SOCKS address the client writes
	Verdict string   // reject | accept | dontcare
	Reach   []net.IP // addresses the proxy may legitimately contact for this case
	Class   string
}

// c05Dests builds the destination cases for a given sink port; registers DNS names.
func c05Dests(r *rand.Rand, port int, names map[string]func(qtype uint16, nth int) []net.IP) []destCase {
	var out []destCase
	add := func(name string, addr []byte, verdict string, class string, reach ...net.IP) {
		out = append(out, destCase{name, addr, verdict, reach, class})
	}
	rb := func() byte { return byte(r.Intn(256)) }
	v4s := map[string]net.IP{
		"loopback": net.IPv4(127, rb(), rb(), 1+rb()%250), "unspecified": net.IPv4zero, "link-local": net.IPv4(169, 254, rb(), rb()),
		"rfc1918-10": net.IPv4(10, rb(), rb(), rb()), "rfc1918-172": net.IPv4(172, byte(16+r.Intn(16)), rb(), rb()), "rfc1918-192": net.IPv4(192, 168, rb(), rb()),
		"cgnat": net.IPv4(100, byte(64+r.Intn(64)), rb(), rb()), "multicast": net.IPv4(byte(224+r.Intn(16)), rb(), rb(), rb()), "broadcast": net.IPv4bcast,
	}
	for cls, ip := range v4s {
		add("type1/"+cls, sscodec.AddrIP(ip, port, false), "reject", cls)
		add("type4-mapped/"+cls, sscodec.AddrIP(ip, port, true), "reject", cls+"/mapped")
		add("literal-domain/"+cls, sscodec.AddrDomain(ip.String(), port), "reject", cls+"/literal")
		add("literal-domain-mapped/"+cls, sscodec.AddrDomain("::ffff:"+ip.String(), port), "reject", cls+"/literal-mapped")
	}
	ula := net.ParseIP(fmt.Sprintf("fd%02x:%x::%x", rb(), r.Intn(0xffff), 1+r.Intn(0xfffe)))
	ll := net.ParseIP(fmt.Sprintf("fe80::%x:%x", r.Intn(0xffff), 1+r.Intn(0xfffe)))
	mc := net.ParseIP(fmt.Sprintf("ff0%x::%x", 1+r.Intn(14), 1+r.Intn(0xfffe)))
	for cls, ip := range map[string]net.IP{"loopback6": net.IPv6loopback, "unspecified6": net.IPv6unspecified, "ula": ula, "link-local6": ll, "multicast6": mc} {
		add("type4/"+cls, sscodec.AddrIP(ip, port, false), "reject", cls)
		add("literal-domain/"+cls, sscodec.AddrDomain(ip.String(), port), "reject", cls+"/literal")
	}
	add("empty-domain", sscodec.AddrDomain("", port), "reject", "empty-domain")
	add("localhost", sscodec.AddrDomain("localhost", port), "reject", "localhost")
	add("zoned-literal", sscodec.AddrDomain("fe80::1%vlab0", port), "reject", "zoned-literal")
	add("zoned-literal-lo", sscodec.AddrDomain("::1%lo", port), "reject", "zoned-literal")
	// public
	p4 := net.IPv4(45, 80, rb(), 1+rb()%250)
	p6 := net.ParseIP(fmt.Sprintf("2606:4700:%x::%x", r.Intn(0xffff), 1+r.Intn(0xfffe)))
	add("type1/public", sscodec.AddrIP(p4, port, false), "accept", "public4", p4)
	add("type4/public", sscodec.AddrIP(p6, port, false), "accept", "public6", p6)
	add("type4-mapped/public", sscodec.AddrIP(p4, port, true), "accept", "public4/mapped", p4)
	add("literal-domain/public", sscodec.AddrDomain(p4.String(), port), "accept", "public4/literal", p4)
	// hostnames with scripted answers
	priv := net.IPv4(10, 77, rb(), 1+rb()%250)
	priv6 := net.ParseIP("fd00::77")
	static := func(ips ...net.IP) func(uint16, int) []net.IP {
		return func(uint16, int) []net.IP { return ips }
	}
	host := func(n string, f func(uint16, int) []net.IP, verdict, class string, reach ...net.IP) {
		full := fmt.Sprintf("%s-%x.c05.lab", n, r.Intn(1<<30))
		names[full] = f
		add("hostname/"+n, sscodec.AddrDomain(full, port), verdict, class, reach...)
	}
	host("single-private", static(priv), "reject", "dns/private")
	host("single-private6", static(priv6), "reject", "dns/private6")
	host("single-loopback", static(net.IPv4(127, 0, 0, 1), net.IPv6loopback), "reject", "dns/loopback")
	host("single-public", static(p4), "accept", "dns/public", p4)
	host("public6-only", static(p6), "accept", "dns/public6", p6)
	host("mixed-family-public", static(p4, p6), "accept", "dns/public-both", p4, p6)
	host("private-then-public", static(priv, p4), "dontcare", "dns/private-then-public", p4)
	host("public-then-private", static(p4, priv), "dontcare", "dns/public-then-private", p4)
	host("private4-public6", static(priv, p6), "dontcare", "dns/private4-public6", p6)
	// no allowed IPv4 answer, an allowed IPv6 one, and forbidden answers of either family around it
	// (whatever order the resolver sorts them into)
	host("loopback4-public6", static(net.IPv4(127, 0, 0, 1), p6), "dontcare", "dns/loopback4-public6", p6)
	host("public6-ula6", static(p6, priv6), "dontcare", "dns/public6-ula6", p6)
	host("ula6-public6-loopback6", static(priv6, p6, net.IPv6loopback), "dontcare", "dns/ula6-public6-loopback6", p6)
	host("public6-cgnat4-private4", static(p6, net.IPv4(100, 64+rb()%64, rb(), 1+rb()%250), priv), "dontcare", "dns/public6-cgnat4-private4", p6)
	// the first answer is public but cannot be connected to; the proxy then tries the next answers,
	// and each of them must be judged on its own
	unreach := net.IPv4(45, 99, 99, byte(1+r.Intn(250)))
	host("unreachable-public-then-private", static(unreach, priv), "dontcare", "dns/unreachable-public-then-private")
	host("unreachable-public-then-loopback", static(unreach, net.IPv4(127, 0, 0, 1)), "dontcare", "dns/unreachable-public-then-loopback")
	host("unreachable-public6-then-ula", static(net.ParseIP("2606:4700:99::1"), priv6), "dontcare", "dns/unreachable-public6-then-ula")
	// rebinding: public for the first query of each type, private afterwards
	host("rebinding", func(qt uint16, nth int) []net.IP {
		if nth == 0 {
			return []net.IP{p4}
		}
		return []net.IP{priv, net.IPv4(127, 0, 0, 1)}
	}, "dontcare", "dns/rebinding", p4)
	return out
}

// sinkObs is one arrival at a sink.
type sinkObs struct {
	proto string
	dst   net.IP
	id    uint64
}

func c05EndToEnd(c *vk.Ctx) bool {
	lab.MustSetup(c.RunDir)
	r := c.Rng
	dns, err := lab.StartDNS()
	if err != nil {
		fatalf("dns: %v", err)
	}
	defer dns.Close()
	names := map[string]func(uint16, int) []net.IP{}
	var nmu sync.Mutex
	dns.SetScript(func(name string, qtype uint16, nth int) lab.DNSAnswer {
		nmu.Lock()
		f := names[name]
		nmu.Unlock()
		if f == nil {
			return lab.DNSAnswer{RCode: 3}
		}
		return lab.DNSAnswer{IPs: f(qtype, nth)}
	})
	// TCP sink: wildcard hub, records the destination of every connection and its first 8 bytes
	// (port below the ephemeral range, so that the UDP sink can use the same number)
	hub := StartTargetHub(freePort())
	defer hub.Close()
	var omu sync.Mutex
	var arrivals []sinkObs
	hub.SetDefault(func(tc *TargetConn) {
		dst := tc.LocalAddr().(*net.TCPAddr).IP
		b := make([]byte, 8)
		tc.SetReadDeadline(time.Now().Add(3 * time.Second))
		n, _ := tc.Read(b)
		o := sinkObs{proto: "tcp", dst: dst}
		if n == 8 {
			o.id = u64(b)
		}
		omu.Lock()
		arrivals = append(arrivals, o)
		omu.Unlock()
		tc.Write(b[:n])
		tc.Close()
	})
	keys := RandKeys(r, 3, nil, 0)
	rig := StartTCPRig(keys, TCPRigOpts{Timeout: 3 * time.Second, Raw: r.Intn(2) == 0})
	defer rig.Close(5 * time.Second)
	nmu.Lock()
	dests := c05Dests(r, hub.Port, names)
	nmu.Unlock()
	// A name whose first answer is public but REFUSES the connection (nothing listens on this
	// port there), and whose second answer is private with a listener: the proxy falls back to
	// the next address, which must be judged on its own.
	p2 := freePort()
	privIP := net.IPv4(10, 88, byte(c.Batch), 7).To4()
	if sinkLn, err := net.ListenTCP("tcp4", &net.TCPAddr{IP: privIP, Port: p2}); err == nil {
		defer sinkLn.Close()
		go func() {
			for {
				cn, err := sinkLn.AcceptTCP()
				if err != nil {
					return
				}
				omu.Lock()
				arrivals = append(arrivals, sinkObs{proto: "tcp", dst: privIP})
				omu.Unlock()
				cn.Close()
			}
		}()
		pubRefusing := net.IPv4(45, 82, byte(c.Batch), 9).To4()
		name := fmt.Sprintf("refused-public-then-private-%x.c05.lab", r.Intn(1<<30))
		nmu.Lock()
		names[name] = func(uint16, int) []net.IP { return []net.IP{pubRefusing, privIP} }
		nmu.Unlock()
		dests = append(dests, destCase{Name: "hostname/refused-public-then-private", Addr: sscodec.AddrDomain(name, p2), Verdict: "dontcare", Class: "dns/refused-public-then-private"})
	}
	// ---- TCP ----
	var wg sync.WaitGroup
	sem := make(chan struct{}, 12)
	type tres struct {
		d      destCase
		id     uint64
		echoed bool
		status string
	}
	results := make([]tres, len(dests))
	for i, d := range dests {
		wg.Add(1)
		sem <- struct{}{}
		wr := c.SubRng("c05t", i)
		go func(i int, d destCase) {
			defer wg.Done()
			defer func() { <-sem }()
			k := keys[wr.Intn(len(keys))]
			id := nextID(c.Batch)
			c.Progress("C05 tcp %s", d.Name)
			cl, err := DialSS(rig.Addr4(), randSrc4(wr), k, randBytes(wr, k.Codec().C.SaltSize))
			if err != nil {
				return
			}
			defer cl.Conn.Close()
			cl.WriteRaw(cl.Enc.Encode(append(append([]byte(nil), d.Addr...), putU64(id)...), nil))
			cl.Conn.CloseWrite()
			got, _ := cl.ReadAllPlain(time.Now().Add(15 * time.Second))
			rec, _ := rig.WaitDone(cl.Local, 15*time.Second)
			st := ""
			if rec != nil {
				st = rec.Snap().Status()
			}
			results[i] = tres{d, id, len(got) == 8 && u64(got) == id, st}
		}(i, d)
	}
	wg.Wait()
	omu.Lock()
	arr := append([]sinkObs(nil), arrivals...)
	omu.Unlock()
	byID := map[uint64][]sinkObs{}
	for _, a := range arr {
		byID[a.id] = append(byID[a.id], a)
		if v, cls := destVerdict(a.dst); v == "reject" {
			c.Violation("C05/tcp-connection-to-forbidden-address", map[string]any{"address": a.dst.String(), "class": cls})
			return false
		}
	}
	for _, res := range results {
		c.Eval("e2e|tcp|" + res.d.Name + "|" + res.d.Verdict)
		wit := map[string]any{"case": res.d.Name, "status": res.status, "echoed": res.echoed, "arrivals": fmt.Sprint(byID[res.id])}
		switch res.d.Verdict {
		case "reject":
			if res.echoed || len(byID[res.id]) > 0 {
				c.Violation("C05/tcp-request-for-forbidden-destination-served", wit)
				return false
			}
			c.Count("tcp_forbidden_requests_refused", 1)
		case "accept":
			if !res.echoed || res.status != "OK" {
				c.Violation("C05/tcp-request-for-public-destination-rejected", wit)
				return false
			}
			c.Count("tcp_public_requests_served", 1)
		}
		for _, a := range byID[res.id] {
			ok := false
			for _, ip := range res.d.Reach {
				ok = ok || ip.Equal(a.dst)
			}
			if !ok {
				wit["contacted"] = a.dst.String()
				c.Violation("C05/tcp-contacted-address-outside-the-request", wit)
				return false
			}
		}
	}
	// ---- UDP: public first datagram creates the association; later datagrams aim anywhere ----
	usink, err := NewUDPEnd(nil, hub.Port) // wildcard: receives for every local address = every address
	if err != nil {
		fatalf("udp sink: %v", err)
	}
	defer usink.Close()
	urig := StartUDPRig(keys, UDPRigOpts{NatTimeout: 20 * time.Second})
	defer urig.Close(5 * time.Second)
	pub := net.IPv4(45, 81, 0, 1).To4()
	nmu.Lock()
	udests := c05Dests(r, hub.Port, names)
	nmu.Unlock()
	for pos := 0; pos < 3; pos++ { // the forbidden datagram is the 1st, 2nd or 3rd of its association
		for _, d := range udests {
			k := keys[r.Intn(len(keys))]
			cl, err := newUDPClient(net.IPv4(198, 51, 100, byte(1+r.Intn(200))).To4(), 0, k)
			if err != nil {
				continue
			}
			ss := k.Codec().C.SaltSize
			for j := 0; j < pos; j++ {
				id := nextID(c.Batch)
				cl.Send(ssUDP(k, randBytes(r, ss), sscodec.AddrIP(pub, hub.Port, false), mkUDPPayload(id, 0, 0, 16)), urig.Addr4())
				waitSink(usink, id)
			}
			id := nextID(c.Batch)
			c.Progress("C05 udp pos=%d %s", pos, d.Name)
			// the same forbidden destination several times in a row (a per-association cache must not
			// let the second one through)
			for rep := 0; rep < 1+pos; rep++ {
				cl.Send(ssUDP(k, randBytes(r, ss), d.Addr, mkUDPPayload(id, 0, 0, 16)), urig.Addr4())
			}
			// fence on the same client (ordered behind the probe)
			fid := nextID(c.Batch)
			cl.Send(ssUDP(k, randBytes(r, ss), sscodec.AddrIP(pub, hub.Port, false), mkUDPPayload(fid, 0, 0, 16)), urig.Addr4())
			if !waitSink(usink, fid) {
				c.Violation("C05/udp-public-datagram-not-forwarded", map[string]any{"after": d.Name})
				cl.Close()
				return false
			}
			arrived := sinkHas(usink, id)
			c.Eval(fmt.Sprintf("e2e|udp|pos=%d|%s|%s", pos, d.Name, d.Verdict))
			switch d.Verdict {
			case "reject":
				if arrived {
					c.Violation("C05/udp-datagram-for-forbidden-destination-forwarded", map[string]any{"case": d.Name, "position_in_association": pos + 1})
					cl.Close()
					return false
				}
				c.Count("udp_forbidden_datagrams_dropped", 1)
				if pos > 0 {
					c.Count("udp_forbidden_datagrams_dropped_on_live_association", 1)
				}
			case "accept":
				if !arrived {
					c.Violation("C05/udp-datagram-for-public-destination-dropped", map[string]any{"case": d.Name, "position_in_association": pos + 1})
					cl.Close()
					return false
				}
				c.Count("udp_public_datagrams_forwarded", 1)
			}
			cl.Close()
		}
	}
	// one service, two UDP listeners (one handler serves both, as in the server binary): a flood of
	// datagrams for a forbidden address on one listener while public ones flow on the other
	pc2, err := net.ListenUDP("udp", &net.UDPAddr{})
	if err == nil {
		bigBuffers(pc2)
		done2 := make(chan struct{})
		go func() { urig.Handler.Handle(pc2); close(done2) }()
		stop := make(chan struct{})
		var fwg sync.WaitGroup
		k := keys[0]
		ss := k.Codec().C.SaltSize
		fwg.Add(1)
		go func() {
			defer fwg.Done()
			fr := c.SubRng("c05flood", 0)
			fcl, err := newUDPClient(net.IPv4(198, 51, 100, 201).To4(), 0, k)
			if err != nil {
				return
			}
			defer fcl.Close()
			bad := sscodec.AddrIP(net.IPv4(10, 66, 6, 6), hub.Port, false)
			for {
				select {
				case <-stop:
					return
				default:
				}
				fcl.Send(ssUDP(k, randBytes(fr, ss), bad, mkUDPPayload(nextID(c.Batch), 0, 0, 16)), &net.UDPAddr{IP: net.IPv4(203, 0, 113, 10), Port: pc2.LocalAddr().(*net.UDPAddr).Port})
				time.Sleep(50 * time.Microsecond)
			}
		}()
		gcl, err := newUDPClient(net.IPv4(198, 51, 100, 202).To4(), 0, k)
		if err == nil {
			for i := 0; i < c.N(600, 3000); i++ {
				id := nextID(c.Batch)
				gcl.Send(ssUDP(k, randBytes(r, ss), sscodec.AddrIP(pub, hub.Port, false), mkUDPPayload(id, 0, 0, 16)), urig.Addr4())
				if i%50 == 0 {
					waitSink(usink, id)
				}
			}
			gcl.Close()
		}
		close(stop)
		fwg.Wait()
		pc2.Close()
		<-done2
		c.Count("two_listener_floods", 1)
		c.Eval("e2e|udp|two-listeners-one-handler|forbidden-flood-vs-public-traffic")
	}
	// every datagram the proxy wrote on any outbound socket, classified (covers broadcast/multicast,
	// for which no sink can exist)
	for _, s := range urig.Nat.All() {
		for _, e := range s.Snap() {
			if e.Kind != "writeTo" {
				continue
			}
			h, _, _ := net.SplitHostPort(e.Addr)
			if i := strings.Index(h, "%"); i >= 0 {
				h = h[:i]
			}
			ip := net.ParseIP(h)
			if v, cls := destVerdict(ip); v == "reject" {
				c.Violation("C05/udp-write-to-forbidden-address", map[string]any{"address": e.Addr, "class": cls})
				return false
			}
			c.Count("udp_outbound_writes_classified", 1)
		}
	}
	return true
}

func waitSink(s *UDPEnd, id uint64) bool {
	deadline := time.Now().Add(udpB)
	for !sinkHas(s, id) {
		if time.Now().After(deadline) {
			return false
		}
		time.Sleep(300 * time.Microsecond)
	}
	return true
}

func sinkHas(s *UDPEnd, id uint64) bool {
	for _, g := range s.Snap() {
		if gid, ok := udpPayloadID(g.Data); ok && gid == id {
			return true
		}
	}
	return false
}

// ---------- syscall monitor on the real binary ----------

var reSockaddr4 = regexp.MustCompile(`sin_port=htons\((\d+)\), sin_addr=inet_addr\("([^"]+)"\)`)
var reSockaddr6 = regexp.MustCompile(`sin6_port=htons\((\d+)\).*?inet_pton\(AF_INET6, "([^"]+)"`)

func c05Strace(c *vk.Ctx) bool {
	r := c.Rng
	dns, err := lab.StartDNS()
	if err != nil {
		fatalf("dns: %v", err)
	}
	defer dns.Close()
	names := map[string]func(uint16, int) []net.IP{}
	var nmu sync.Mutex
	dns.SetScript(func(name string, qtype uint16, nth int) lab.DNSAnswer {
		nmu.Lock()
		f := names[name]
		nmu.Unlock()
		if f == nil {
			return lab.DNSAnswer{RCode: 3}
		}
		return lab.DNSAnswer{IPs: f(qtype, nth)}
	})
	hub := StartTargetHub(freePort())
	defer hub.Close()
	hub.SetDefault(echoTCP)
	if usink, err := NewUDPEnd(nil, hub.Port); err == nil {
		defer usink.Close()
	}
	k := KeySpec{"k", pick(r, cipherNames), randSecret(r)}
	base := 14000 + c.Batch*10
	cf := ConfSpec{Services: []SvcSpec{{Listeners: []LnSpec{{"tcp", fmt.Sprintf("203.0.113.70:%d", base)}, {"udp", fmt.Sprintf("203.0.113.70:%d", base)}}, Keys: []KeySpec{k}}}}
	tracePath := c.RunDir + "/strace.out"
	// every other batch with debug logging on: the destination policy does not depend on the log level
	verbose := c.Batch%2 == 1
	srv, err := StartServer(c.RunDir, cf, ServerOpts{Strace: tracePath, Verbose: verbose})
	if err != nil {
		c.Inconclusive("server under strace did not start: " + err.Error())
		if srv != nil {
			srv.Stop()
		}
		return true
	}
	nmu.Lock()
	dests := c05Dests(r, hub.Port, names)
	nmu.Unlock()
	server := fmt.Sprintf("203.0.113.70:%d", base)
	userver, _ := net.ResolveUDPAddr("udp", server)
	ucl, _ := newUDPClient(net.IPv4(198, 51, 100, 90).To4(), 0, k)
	defer ucl.Close()
	for _, d := range dests {
		id := nextID(c.Batch)
		cl, err := DialSS(server, nil, k, randBytes(r, k.Codec().C.SaltSize))
		if err == nil {
			cl.WriteRaw(cl.Enc.Encode(append(append([]byte(nil), d.Addr...), putU64(id)...), nil))
			cl.Conn.CloseWrite()
			cl.ReadAllPlain(time.Now().Add(15 * time.Second))
			cl.Conn.Close()
		}
		ucl.Send(ssUDP(k, randBytes(r, k.Codec().C.SaltSize), d.Addr, mkUDPPayload(nextID(c.Batch), 0, 0, 16)), userver)
		c.Eval("syscall|" + d.Name + "|" + d.Verdict)
	}
	time.Sleep(300 * time.Millisecond)
	srv.Stop()
	f, err := os.Open(tracePath)
	if err != nil {
		c.Inconclusive("no strace output: " + err.Error())
		return true
	}
	defer f.Close()
	sc := bufio.NewScanner(f)
	sc.Buffer(make([]byte, 1<<20), 1<<20)
	nClassified := 0
	for sc.Scan() {
		l := sc.Text()
		if !(strings.Contains(l, "connect(") || strings.Contains(l, "sendto(") || strings.Contains(l, "sendmsg(") || strings.Contains(l, "sendmmsg(")) {
			continue
		}
		var host, port string
		if m := reSockaddr4.FindStringSubmatch(l); m != nil {
			port, host = m[1], m[2]
		} else if m := reSockaddr6.FindStringSubmatch(l); m != nil {
			port, host = m[1], m[2]
		} else {
			continue
		}
		ip := net.ParseIP(host)
		if ip == nil {
			continue
		}
		nClassified++
		if ip.Equal(net.IPv4(127, 0, 0, 1)) && port == "53" {
			continue // the lab's resolver
		}
		if strings.HasPrefix(host, "198.51.100.") || ip.Equal(net.IPv4(203, 0, 113, 70)) {
			continue // replies to the lab clients
		}
		// strace -yy annotates the descriptor with its protocol. A connect() on a UDP socket sends
		// nothing (Go's resolver/dialer use it to probe source addresses): only stream connects
		// and datagram sends are traffic.
		if strings.Contains(l, "connect(") && !reTCPfd.MatchString(l) {
			continue
		}
		if v, cls := destVerdict(ip); v == "reject" {
			c.Violation("C05/syscall-to-forbidden-address", map[string]any{"syscall": l[:min(len(l), 300)], "class": cls})
			return false
		}
	}
	if nClassified == 0 {
		c.Inconclusive("strace output contained no classified socket call")
		return true
	}
	c.Count("syscalls_classified", int64(nClassified))
	c.Count(fmt.Sprintf("syscall_monitor_runs_verbose=%v", verbose), 1)
	return true
}

var reTCPfd = regexp.MustCompile(`connect\(\d+<TCP(v6)?:`)

func init() {
	vk.Register(&vk.Spec{
		ID:    "C05",
		Level: "exploration",
		Rule: "validator sweep: RequirePublicIP vs an independent classifier written from the property's block list (must-reject / must-accept / don't-care): every block boundary +-2, first/last/random of every /8, 2e5..2e6 random IPv4 in 4-byte and mapped 16-byte forms, IPv6 by prefix class, nil/short slices; thorough enumerates all 2^32 IPv4 addresses; " +
			"end to end with the default policy in a lab where every address is local: destinations written as type 1/4/mapped/literal domain for every forbidden class, empty domain, localhost, zoned literals, hostnames with scripted answers (single, mixed family, private+public in both orders, rebinding), over TCP and as the 1st/2nd/3rd datagram of a UDP association; sinks, the H2 write log and an strace syscall monitor on the real binary classify every contacted address",
		Assumptions: []string{"don't-care = IANA special-purpose blocks the property neither forbids nor requires (0/8 beyond 0.0.0.0, TEST-NETs, 240/4, NAT64, 6to4, documentation, ...)", "strace -yy: connect() on a UDP socket sends no packet (source-address probing by Go's resolver/dialer) and is not traffic; stream connects and datagram sends are"},
		Batches: func(t string) int {
			if t == "thorough" {
				return 16
			}
			return 4
		},
		Parallel: func(t string) int { return 16 },
		Timeout:  func(t string) time.Duration { return 40 * time.Minute },
		RaceUpgrade: func(report string) (string, bool) {
			// The destination policy is shared by every connection and datagram. A data race inside it
			// (the package outline-ss-server/net) means its answer for some address is undefined.
			if strings.Contains(report, "outline-ss-server/net.") || strings.Contains(report, "makeValidatingTCPStreamDialer") {
				return "C05/destination-policy-state-accessed-without-synchronisation", true
			}
			return "", false
		},
		ExhaustiveCounter: "ipv4_addresses_enumerated",
		ExhaustiveMin:     1 << 32,
		Run: func(c *vk.Ctx) {
			for _, s := range []string{"validator_addresses_checked", "tcp_forbidden_requests_refused", "tcp_public_requests_served", "udp_forbidden_datagrams_dropped_on_live_association", "udp_public_datagrams_forwarded", "udp_outbound_writes_classified", "syscalls_classified", "two_listener_floods", "syscall_monitor_runs_verbose=true", "syscall_monitor_runs_verbose=false"} {
				c.Require(s)
			}
			if !c05Sweep(c) {
				return
			}
			if c.Thorough() {
				span := uint64(1) << 32 / 16
				if v := os.Getenv("VERIF_C05_SPAN_LOG2"); v != "" { // measurement aid
					var n uint
					fmt.Sscan(v, &n)
					span = uint64(1) << n
				}
				if !c05Exhaustive4(c, uint64(c.Batch)*span, uint64(c.Batch+1)*span) {
					return
				}
			}
			if !c05EndToEnd(c) {
				return
			}
			c05Strace(c)
		},
	})
}
