package props

import (
	"fmt"
	"math/rand"
	"net"
	"strconv"
	"strings"
	"time"

	"verifharness/lab"
	"verifharness/vk"
)

// c14Process: the timeout an operator configures (-udptimeout) is the one associations get, for
// both configuration formats of the real binary. Observed from outside the process: the
// association's outbound socket in /proc (owned by the server, ephemeral port), the source port
// the target sees, and the server's own counters.
func c14Process(c *vk.Ctx, r *rand.Rand) bool {
	outbound := func(pid int) []string {
		var out []string
		for _, s := range lab.ListeningOf(pid) {
			if !strings.HasPrefix(s, "udp ") {
				continue
			}
			_, p, err := net.SplitHostPort(strings.TrimPrefix(s, "udp "))
			if n, _ := strconv.Atoi(p); err == nil && n >= 20000 {
				out = append(out, s)
			}
		}
		return out
	}
	for fi, format := range []string{"services", "legacy-keys"} {
		T := []time.Duration{1200 * time.Millisecond, 2500 * time.Millisecond}[(c.Batch+fi)%2]
		port := 16000 + c.Batch*10 + fi
		k := RandKeys(r, 1, nil, 0)[0]
		var cf ConfSpec
		if format == "services" {
			cf = ConfSpec{Services: []SvcSpec{{Listeners: []LnSpec{{"udp", fmt.Sprintf("203.0.113.81:%d", port)}}, Keys: []KeySpec{k}}}}
		} else {
			cf = ConfSpec{Legacy: []LegacyKey{{k, port}}}
		}
		srv, err := StartServer(c.RunDir, cf, ServerOpts{UDPTimeout: T})
		if err != nil {
			c.Violation("C14/process/server-does-not-start", map[string]any{"err": err.Error(), "format": format})
			if srv != nil {
				srv.Stop()
			}
			return false
		}
		tgt, err := startUDPTarget("echo", net.IPv4(45, 75, byte(c.Batch), byte(1+fi)).To4(), 7001)
		if err != nil {
			srv.Stop()
			fatalf("target: %v", err)
		}
		cl, err := newUDPClient(net.IPv4(198, 51, 100, 14).To4(), 0, k)
		if err != nil {
			srv.Stop()
			tgt.Stop()
			fatalf("client: %v", err)
		}
		server, _ := net.ResolveUDPAddr("udp", fmt.Sprintf("203.0.113.81:%d", port))
		ok := func() bool {
			c.Progress("C14 process format=%s udptimeout=%v", format, T)
			// two datagrams 0.6 T apart: the second one finds the association of the first
			var srcs []string
			var last, sentAt, firstSent time.Time
			for i := 0; i < 2; i++ {
				id := nextID(c.Batch)
				sentAt = time.Now() // the server cannot have handled the datagram before this
				cl.Send(ssUDP(k, randBytes(r, k.Codec().C.SaltSize), tgt.addr(), mkUDPPayload(id, 1, 30, 40)), server)
				g, ok := tgt.waitID(id, udpB)
				if !ok {
					c.Violation("C14/process/valid-datagram-not-forwarded", map[string]any{"format": format, "datagram": i})
					return false
				}
				last = time.Now() // not earlier than the moment the server handled it
				srcs = append(srcs, g.From)
				cl.waitReply(k, id|1<<56, udpB)
				if i == 0 {
					firstSent = sentAt
					time.Sleep(T * 6 / 10)
				}
			}
			if srcs[0] != srcs[1] {
				// the first datagram was handled no earlier than firstSent, the second no later than last
				if last.Sub(firstSent) >= T {
					c.Inconclusive("process phase: the harness was stalled between two datagrams")
				} else {
					c.Violation("C14/process/association-ended-before-the-configured-timeout", map[string]any{"format": format, "udptimeout": T.String(), "outbound_first": srcs[0], "outbound_second_datagram_sent_0.6_timeouts_later": srcs[1]})
					return false
				}
			}
			// now idle: the outbound socket goes away after T (and within the bound)
			var goneAt time.Time
			for dl := last.Add(T + udpB); time.Now().Before(dl); time.Sleep(10 * time.Millisecond) {
				if len(outbound(srv.Pid)) == 0 {
					goneAt = time.Now()
					break
				}
			}
			c.Eval(fmt.Sprintf("process|format=%s|udptimeout=%v", format, T))
			if goneAt.IsZero() {
				c.Violation("C14/process/association-not-reclaimed-after-the-configured-timeout", map[string]any{"format": format, "udptimeout": T.String(), "idle_for": time.Since(last).String(), "outbound_sockets_still_open": outbound(srv.Pid)})
				return false
			}
			if d := goneAt.Sub(sentAt); d < T {
				c.Violation("C14/process/association-ended-before-the-configured-timeout", map[string]any{"format": format, "udptimeout": T.String(), "socket_closed_after_idle": d.String()})
				return false
			}
			// reported: one entry added, one removed
			var added, removed float64
			for dl := time.Now().Add(udpB); time.Now().Before(dl); time.Sleep(20 * time.Millisecond) {
				m, err := srv.Metrics()
				if err != nil {
					continue
				}
				added, removed = metricSum(m, "shadowsocks_udp_nat_entries_added", nil), metricSum(m, "shadowsocks_udp_nat_entries_removed", nil)
				if added == 1 && removed == 1 {
					break
				}
			}
			if added != 1 || removed != 1 {
				c.Violation("C14/process/association-removal-not-reported-once", map[string]any{"format": format, "added": added, "removed": removed})
				return false
			}
			c.Count("process_configured_timeout_honoured_"+format, 1)
			return true
		}()
		cl.Close()
		tgt.Stop()
		srv.Stop()
		if !ok {
			return false
		}
	}
	return true
}
