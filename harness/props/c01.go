package props

import (
	"bytes"
	"fmt"
	"io"
	"math/rand"
	"net"
	"sync"
	"time"

	"github.com/Jigsaw-Code/outline-ss-server/service"

	"verifharness/sscodec"
	"verifharness/vk"
)

// C01: TCP access-key authentication is sound and complete for every key list.
//
// Oracle: ground truth by construction. The harness builds every opening with its own
// codec under a (cipher, secret) it chose, so it knows the set of ids configured with
// exactly that pair. success <=> set non-empty, id in set, the authenticated stream
// decrypts to what was sent and the reply encrypts under the same key; on failure
// nothing is written to the client and the status is ERR_CIPHER.

type searchRec struct {
	mu    sync.Mutex
	found []bool
}

func (s *searchRec) AddCipherSearch(found bool, d time.Duration) {
	s.mu.Lock()
	s.found = append(s.found, found)
	s.mu.Unlock()
}

func (s *searchRec) last() (bool, int) {
	s.mu.Lock()
	defer s.mu.Unlock()
	if len(s.found) == 0 {
		return false, 0
	}
	return s.found[len(s.found)-1], len(s.found)
}

type c01Attempt struct {
	Class   string  `json:"class"`
	Key     KeySpec `json:"key"`
	InList  bool    `json:"in_list"`
	Remote  string  `json:"remote"`
	ListLen int     `json:"list_len"`
	Pos     int     `json:"pos"`
	InLen   int     `json:"input_len"`
}

func c01Remote(r *rand.Rand, pool []net.Addr) net.Addr {
	switch r.Intn(10) {
	case 0:
		return strAddr("not-an-address")
	case 1:
		return nil
	default:
		return pool[r.Intn(len(pool))]
	}
}

func c01Pool(r *rand.Rand) []net.Addr {
	pool := []net.Addr{}
	for i := 0; i < 2+r.Intn(4); i++ {
		switch r.Intn(4) {
		case 0:
			ip := make(net.IP, 16)
			r.Read(ip)
			pool = append(pool, &net.TCPAddr{IP: ip, Port: 1024 + r.Intn(60000)})
		case 1:
			// address of a non-TCPAddr type that still parses (exercises the string path)
			pool = append(pool, strAddr(fmt.Sprintf("198.51.%d.%d:%d", r.Intn(256), r.Intn(256), 1024+r.Intn(60000))))
		default:
			pool = append(pool, &net.TCPAddr{IP: net.IPv4(byte(1+r.Intn(222)), byte(r.Intn(256)), byte(r.Intn(256)), byte(r.Intn(256))), Port: 1024 + r.Intn(60000)})
		}
	}
	return pool
}

// buildOpening makes a client stream under key k: address+payload, chunked.
var saltPrefixes = [][]byte{[]byte("GET / HTTP/1.1\r\n"), []byte("POST "), []byte("HEAD "), []byte("CONNECT "), []byte("HTTP/1.1 200"), {0x16, 0x03, 0x01, 0x02, 0x00}, {0x16, 0x03, 0x03},
	[]byte("SSH-2.0-"), {0x13, 'B', 'i', 't'}, {0, 0, 0, 0, 0, 0, 0, 0}, {0xff, 0xff, 0xff, 0xff}, {5, 1, 0}, {4, 1}}

func buildOpening(r *rand.Rand, k KeySpec, plaintext []byte) (stream, salt []byte) {
	ck := k.Codec()
	salt = randBytes(r, ck.C.SaltSize)
	if r.Intn(6) == 0 {
		// salts are arbitrary bytes chosen by the client: some clients deliberately start them with
		// a prefix that looks like another protocol
		copy(salt, saltPrefixes[r.Intn(len(saltPrefixes))])
	}
	enc := sscodec.NewStreamEncoder(ck, salt)
	var sizes []int
	switch r.Intn(4) {
	case 0:
		sizes = []int{1 + r.Intn(20)}
	case 1:
		sizes = []int{0, 1 + r.Intn(300)} // empty first chunk
	case 2:
		sizes = []int{0x3FFF}
	default:
		sizes = []int{1 + r.Intn(0x3FFF), 1 + r.Intn(100)}
	}
	if len(plaintext) == 0 || sizes[0] == 0 {
		// explicit empty chunk first
		stream = append(stream, enc.Chunk(nil, -1)...)
		if sizes[0] == 0 {
			sizes = sizes[1:]
		}
	}
	stream = append(stream, enc.Encode(plaintext, sizes)...)
	return stream, salt
}

func c01Run(c *vk.Ctx) {
	r := c.Rng
	nLists := c.N(14, 60)
	for li := 0; li < nLists; li++ {
		var n int
		switch r.Intn(6) {
		case 0:
			n = 1
		case 1:
			n = 2 + r.Intn(4)
		case 2, 3:
			n = 6 + r.Intn(60)
		default:
			n = 60 + r.Intn(c.N(240, 540))
		}
		var ciphers []string
		if r.Intn(3) == 0 {
			ciphers = []string{pick(r, cipherNames)}
		}
		keys := RandKeys(r, n, ciphers, 0.15)
		cl := BuildCipherList(keys)
		rec := &searchRec{}
		auth := service.NewShadowsocksStreamAuthenticator(cl, nil, rec, nil)
		pool := c01Pool(r)
		lastUser := map[string]string{} // material -> remote string of last successful use
		nAtt := c.N(40, 80)
		if n > 100 {
			nAtt = c.N(24, 40)
		}
		for ai := 0; ai < nAtt; ai++ {
			c01Attempt1(c, r, keys, auth, rec, pool, lastUser)
		}
		// Completeness sweep: the key at EVERY position must still authenticate after the
		// history above permuted the list (snapshots must be permutations of the list).
		if n <= 80 || li%4 == 0 {
			for pos, k := range keys {
				c01Valid(c, r, keys, auth, rec, k, pos, pool[0], "sweep", lastUser)
			}
			c.Count("position_sweeps", 1)
		}
	}
	c01Concurrent(c)
}

func c01Attempt1(c *vk.Ctx, r *rand.Rand, keys []KeySpec, auth service.StreamAuthenticateFunc, rec *searchRec, pool []net.Addr, lastUser map[string]string) {
	remote := c01Remote(r, pool)
	n := len(keys)
	switch r.Intn(10) {
	case 0, 1, 2, 3: // valid, position class chosen deliberately
		var pos int
		switch r.Intn(4) {
		case 0:
			pos = 0
		case 1:
			pos = n - 1
		default:
			pos = r.Intn(n)
		}
		c01Valid(c, r, keys, auth, rec, keys[pos], pos, remote, "valid", lastUser)
	case 4: // key not in the list: same cipher, other secret
		k := KeySpec{ID: "absent", Cipher: pick(r, cipherNames), Secret: randSecret(r) + "#"}
		stream, _ := buildOpening(r, k, append(sscodec.AddrIP(net.IPv4(8, 8, 8, 8), 80, false), randBytes(r, r.Intn(200))...))
		c01Invalid(c, keys, auth, rec, remote, "absent-key/"+k.Cipher, stream)
	case 5: // right secret, wrong cipher (unless that pair is configured too)
		o := keys[r.Intn(n)]
		k := KeySpec{ID: "wrongcipher", Cipher: pick(r, cipherNames), Secret: o.Secret}
		if len(IDsFor(keys, k)) > 0 {
			c01Valid(c, r, keys, auth, rec, k, -1, remote, "valid", lastUser)
			return
		}
		stream, _ := buildOpening(r, k, append(sscodec.AddrIP(net.IPv4(8, 8, 8, 8), 80, false), randBytes(r, r.Intn(200))...))
		c01Invalid(c, keys, auth, rec, remote, "wrong-cipher/"+o.Cipher+"->"+k.Cipher, stream)
	case 6: // truncation below the key-finding prefix
		o := keys[r.Intn(n)]
		stream, _ := buildOpening(r, o, append(sscodec.AddrIP(net.IPv4(8, 8, 8, 8), 80, false), randBytes(r, r.Intn(50))...))
		cut := r.Intn(50)
		c01Invalid(c, keys, auth, rec, remote, fmt.Sprintf("truncated<50/%s", sizeBucket(cut)), stream[:cut])
	case 7: // random bytes
		var l int
		switch r.Intn(4) {
		case 0:
			l = r.Intn(50)
		case 1:
			l = 50 + r.Intn(3)
		case 2:
			l = 50 + r.Intn(300)
		default:
			l = r.Intn(4097)
		}
		c01Invalid(c, keys, auth, rec, remote, "random/"+sizeBucket(l), randBytes(r, l))
	default: // single-bit flip in the authenticating prefix
		o := keys[r.Intn(n)]
		stream, _ := buildOpening(r, o, append(sscodec.AddrIP(net.IPv4(8, 8, 8, 8), 80, false), randBytes(r, 20+r.Intn(50))...))
		ss := o.Codec().C.SaltSize
		var off int
		var where string
		switch r.Intn(3) {
		case 0:
			off, where = r.Intn(ss), "salt"
		case 1:
			off, where = ss+r.Intn(2), "length"
		default:
			off, where = ss+2+r.Intn(16), "length-tag"
		}
		stream[off] ^= 1 << uint(r.Intn(8))
		c01Invalid(c, keys, auth, rec, remote, "bitflip/"+where+"/"+o.Cipher, stream)
	}
}

func remoteStr(a net.Addr) string {
	if a == nil {
		return "<nil>"
	}
	return a.String()
}

func c01Valid(c *vk.Ctx, r *rand.Rand, keys []KeySpec, auth service.StreamAuthenticateFunc, rec *searchRec, k KeySpec, pos int, remote net.Addr, kind string, lastUser map[string]string) {
	want := IDsFor(keys, k)
	payload := randBytes(r, r.Intn(600))
	plaintext := append(sscodec.AddrIP(net.IPv4(8, 8, 8, 8), 80, false), payload...)
	stream, _ := buildOpening(r, k, plaintext)
	rd, segClass := segmented(r, stream)
	conn := &memConn{r: rd, remote: remote, local: strAddr("192.0.2.1:9000")}
	_, before := rec.last()
	att := c01Attempt{Class: kind + "/" + segClass, Key: k, InList: true, Remote: remoteStr(remote), ListLen: len(keys), Pos: pos, InLen: len(stream)}
	c.Progress("C01 %+v", att)
	id, inner, cerr := auth(conn)
	found, after := rec.last()
	posClass := "middle"
	switch {
	case pos == 0:
		posClass = "front"
	case pos == len(keys)-1:
		posClass = "last"
	case pos < 0:
		posClass = "other-cipher-dup"
	}
	if len(want) > 1 {
		posClass += "+dup"
	}
	rel := "different-ip"
	if remote == nil || remoteStr(remote) == "not-an-address" {
		rel = "invalid-ip"
	} else if lastUser[k.Material()] == remoteStr(remote) {
		rel = "same-as-last"
	}
	c.Eval(fmt.Sprintf("%s|n=%s|%s|%s|%s|%s", kind, sizeBucket(len(keys)), k.Cipher, posClass, rel, segClass))
	if cerr != nil || inner == nil {
		c.Violation("C01/valid-key-rejected", map[string]any{"attempt": att, "err": fmt.Sprint(cerr)})
		return
	}
	if !want[id] {
		c.Violation("C01/wrong-id", map[string]any{"attempt": att, "got": id, "want": vk.SortedKeys(want)})
		return
	}
	if after != before+1 || !found {
		c.Violation("C01/cipher-search-metric", map[string]any{"attempt": att, "calls": after - before, "found": found})
	}
	// The authenticated stream must decrypt to exactly what was sent (right key, nothing lost
	// from the bytes consumed for the key search).
	got, rerr := io.ReadAll(inner)
	if rerr != nil || !bytes.Equal(got, plaintext) {
		c.Violation("C01/authenticated-stream-mismatch", map[string]any{"attempt": att, "err": fmt.Sprint(rerr), "first_diff": firstDiff(got, plaintext), "got_len": len(got), "want_len": len(plaintext)})
		return
	}
	if conn.writes != 0 {
		c.Violation("C01/write-before-data", map[string]any{"attempt": att, "writes": conn.writes})
	}
	// Reply direction: encrypted under the same key.
	reply := randBytes(r, 1+r.Intn(100))
	inner.Write(reply)
	dec := sscodec.NewStreamDecoder(k.Codec(), bytes.NewReader(conn.wrote))
	chunk, derr := dec.ReadChunk()
	if derr != nil || !bytes.Equal(chunk, reply) {
		c.Violation("C01/reply-not-under-client-key", map[string]any{"attempt": att, "err": fmt.Sprint(derr)})
	}
	lastUser[k.Material()] = remoteStr(remote)
	c.Count("valid_authenticated", 1)
	if len(c01sampleOnce) < 3 {
		c01sampleOnce = append(c01sampleOnce, 1)
		c.Sample(map[string]any{"attempt": att, "result_id": id})
	}
}

var c01sampleOnce []int

func c01Invalid(c *vk.Ctx, keys []KeySpec, auth service.StreamAuthenticateFunc, rec *searchRec, remote net.Addr, class string, input []byte) {
	conn := &memConn{r: bytes.NewReader(input), remote: remote, local: strAddr("192.0.2.1:9000")}
	att := c01Attempt{Class: class, Remote: remoteStr(remote), ListLen: len(keys), InLen: len(input)}
	c.Progress("C01 %+v", att)
	_, before := rec.last()
	id, inner, cerr := auth(conn)
	found, after := rec.last()
	c.Eval(fmt.Sprintf("invalid|n=%s|%s", sizeBucket(len(keys)), class))
	if cerr == nil || inner != nil {
		c.Violation("C01/invalid-opening-authenticated", map[string]any{"attempt": att, "id": id, "input_head": fmt.Sprintf("%x", input[:min(len(input), 64)])})
		return
	}
	if cerr.Status != "ERR_CIPHER" {
		c.Violation("C01/invalid-opening-status", map[string]any{"attempt": att, "status": cerr.Status})
	}
	if conn.writes != 0 {
		c.Violation("C01/write-on-failure", map[string]any{"attempt": att, "writes": conn.writes})
	}
	if after != before+1 || found {
		c.Violation("C01/cipher-search-metric", map[string]any{"attempt": att, "calls": after - before, "found": found})
	}
	c.Count("invalid_rejected", 1)
	if len(c01sampleInv) < 2 {
		c01sampleInv = append(c01sampleInv, 1)
		c.Sample(map[string]any{"attempt": att, "status": cerr.Status})
	}
}

var c01sampleInv []int

// c01Concurrent: lookups against list replacement.
func c01Concurrent(c *vk.Ctx) {
	r := c.Rng
	rounds := c.N(3, 10)
	for round := 0; round < rounds; round++ {
		n := 4 + r.Intn(40)
		all := RandKeys(r, n+n/2, nil, 0.1)
		// A = all[:n]; B = all[n/2:]  => both: all[n/2:n]
		A := append([]KeySpec(nil), all[:n]...)
		B := append([]KeySpec(nil), all[n/2:]...)
		// ids differ between the lists for the shared keys
		for i := range B {
			B[i].ID = "B-" + B[i].ID
		}
		absent := RandKeys(r, 3, nil, 0)
		for i := range absent {
			absent[i].Secret += "#absent"
		}
		cl := BuildCipherList(A)
		auth := service.NewShadowsocksStreamAuthenticator(cl, nil, nil, nil)
		stop := make(chan struct{})
		var wg sync.WaitGroup
		var updates int64
		wg.Add(1)
		go func() {
			defer wg.Done()
			for i := 0; ; i++ {
				select {
				case <-stop:
					return
				default:
				}
				if i%2 == 0 {
					cl.Update(BuildList(B))
				} else {
					cl.Update(BuildList(A))
				}
				updates++
				time.Sleep(time.Duration(50+i%7*30) * time.Microsecond)
			}
		}()
		G := 4 + r.Intn(5)
		var lw sync.WaitGroup
		for g := 0; g < G; g++ {
			lw.Add(1)
			go func(g int) {
				defer lw.Done()
				gr := c.SubRng("c01conc", round*100+g)
				pool := c01Pool(gr)
				for i := 0; i < c.N(60, 150); i++ {
					var k KeySpec
					var where string
					switch gr.Intn(4) {
					case 0:
						k, where = all[n/2+gr.Intn(n-n/2)], "both"
					case 1:
						k, where = all[gr.Intn(n/2)], "onlyA"
					case 2:
						k, where = all[n+gr.Intn(len(all)-n)], "onlyB"
					default:
						k, where = absent[gr.Intn(len(absent))], "neither"
					}
					plaintext := append(sscodec.AddrIP(net.IPv4(8, 8, 8, 8), 80, false), randBytes(gr, gr.Intn(100))...)
					stream, _ := buildOpening(gr, k, plaintext)
					conn := &memConn{r: bytes.NewReader(stream), remote: pool[gr.Intn(len(pool))]}
					id, inner, cerr := auth(conn)
					c.Eval("concurrent-update|" + where + "|" + k.Cipher)
					wantA, wantB := IDsFor(A, k), IDsFor(B, k)
					ok := cerr == nil && inner != nil
					switch where {
					case "both":
						if !ok {
							c.Violation("C01/concurrent/key-in-both-lists-rejected", map[string]any{"key": k, "err": fmt.Sprint(cerr)})
						}
					case "neither":
						if ok && len(wantA)+len(wantB) == 0 {
							c.Violation("C01/concurrent/absent-key-authenticated", map[string]any{"key": k, "id": id})
						}
					}
					if ok {
						if !wantA[id] && !wantB[id] {
							c.Violation("C01/concurrent/wrong-id", map[string]any{"key": k, "got": id})
						}
						got, _ := io.ReadAll(inner)
						if !bytes.Equal(got, plaintext) {
							c.Violation("C01/concurrent/stream-mismatch", map[string]any{"key": k})
						}
						c.Count("concurrent_authenticated", 1)
					} else if conn.writes != 0 {
						c.Violation("C01/write-on-failure", map[string]any{"key": k})
					}
				}
			}(g)
		}
		lw.Wait()
		close(stop)
		wg.Wait()
		c.Count("concurrent_list_updates", updates)
	}
}

// segReader hands out its data in pieces of the given sizes (then whatever is left): the
// opening arrives in several TCP segments, cut anywhere around the key-search prefix.
type segReader struct {
	data []byte
	cuts []int
}

func (s *segReader) Read(b []byte) (int, error) {
	if len(s.data) == 0 {
		return 0, io.EOF
	}
	n := len(s.data)
	if len(s.cuts) > 0 {
		n = min(n, s.cuts[0])
		s.cuts = s.cuts[1:]
	}
	n = min(n, len(b))
	copy(b, s.data[:n])
	s.data = s.data[n:]
	return n, nil
}

func segmented(r *rand.Rand, stream []byte) (io.Reader, string) {
	switch r.Intn(5) {
	case 0:
		return &segReader{data: stream, cuts: []int{1 + r.Intn(33)}}, "seg<34"
	case 1:
		return &segReader{data: stream, cuts: []int{34 + r.Intn(16)}}, "seg34-49"
	case 2:
		cuts := make([]int, 60)
		for i := range cuts {
			cuts[i] = 1
		}
		return &segReader{data: stream, cuts: cuts}, "byte-by-byte"
	}
	return bytes.NewReader(stream), "whole"
}

// gatedConn blocks its first Read until released: the lookup has taken its snapshot of the
// key list but has not seen the opening bytes yet.
type gatedConn struct {
	memConn
	gate    chan struct{}
	reading chan struct{}
	once    sync.Once
}

func (g *gatedConn) Read(b []byte) (int, error) {
	g.once.Do(func() { close(g.reading) })
	<-g.gate
	return g.memConn.Read(b)
}

// c01Straddle forces the interleaving "lookup started (snapshot taken) -> list replaced ->
// opening bytes arrive". Whatever the straddling lookup returns, once the replacement and
// that lookup are over, a key that is not in the new list must not authenticate.
func c01Straddle(c *vk.Ctx) {
	r := c.Rng
	for round := 0; round < c.N(40, 200); round++ {
		n := 2 + r.Intn(30)
		A := RandKeys(r, n, nil, 0.1)
		removedIdx := r.Intn(n)
		removed := A[removedIdx]
		var B []KeySpec
		for i, k := range A {
			if i != removedIdx && k.Material() != removed.Material() {
				B = append(B, k)
			}
		}
		if len(B) == 0 {
			B = RandKeys(r, 1, nil, 0)
		}
		cl := BuildCipherList(A)
		auth := service.NewShadowsocksStreamAuthenticator(cl, nil, nil, nil)
		pool := c01Pool(r)
		plaintext := append(sscodec.AddrIP(net.IPv4(8, 8, 8, 8), 80, false), randBytes(r, r.Intn(100))...)
		stream, _ := buildOpening(r, removed, plaintext)
		g := &gatedConn{memConn: memConn{r: bytes.NewReader(stream), remote: pool[0]}, gate: make(chan struct{}), reading: make(chan struct{})}
		done := make(chan struct{})
		var sid string
		var sok bool
		go func() {
			id, inner, cerr := auth(g)
			sid, sok = id, cerr == nil && inner != nil
			close(done)
		}()
		select {
		case <-g.reading:
		case <-time.After(10 * time.Second):
			c.Inconclusive("straddle: lookup never started reading")
			close(g.gate)
			<-done
			continue
		}
		cl.Update(BuildList(B)) // the key is revoked while the lookup is in flight
		close(g.gate)
		<-done
		c.Count("straddle_forced", 1)
		if sok && !IDsFor(A, removed)[sid] {
			c.Violation("C01/straddle/wrong-id", map[string]any{"got": sid})
		}
		// Now the list is B for good: the revoked key must not work, from any IP, repeatedly.
		for rep := 0; rep < 3; rep++ {
			st, _ := buildOpening(r, removed, plaintext)
			conn := &memConn{r: bytes.NewReader(st), remote: pool[r.Intn(len(pool))]}
			id, inner, cerr := auth(conn)
			c.Eval(fmt.Sprintf("straddle|revoked-key-after-update|%s|straddler-ok=%v", removed.Cipher, sok))
			if cerr == nil || inner != nil {
				c.Violation("C01/straddle/revoked-key-authenticates-after-update", map[string]any{"key": removed, "id": id, "list_len": len(B), "round": round})
				return
			}
		}
		// and every key of B still works
		for pos, k := range B {
			st, _ := buildOpening(r, k, plaintext)
			conn := &memConn{r: bytes.NewReader(st), remote: pool[r.Intn(len(pool))]}
			id, inner, cerr := auth(conn)
			if cerr != nil || inner == nil || !IDsFor(B, k)[id] {
				c.Violation("C01/straddle/current-key-rejected", map[string]any{"key": k, "pos": pos, "err": fmt.Sprint(cerr)})
				return
			}
		}
		c.EvalN("straddle|current-keys-sweep", int64(len(B)))
	}
}

// c01ManyPending: hundreds of connections that have connected but not yet sent their opening
// bytes (idle clients, slow links, a scanner holding sockets) are in the authenticator at once;
// a valid client that shows up meanwhile authenticates like on an idle server, and so do the
// pending ones once their bytes arrive.
func c01ManyPending(c *vk.Ctx) {
	r := c.Rng
	for round := 0; round < c.N(2, 6); round++ {
		keys := RandKeys(r, 2+r.Intn(10), nil, 0.1)
		auth := service.NewShadowsocksStreamAuthenticator(BuildCipherList(keys), nil, nil, nil)
		pool := c01Pool(r)
		plaintext := append(sscodec.AddrIP(net.IPv4(8, 8, 4, 4), 443, false), randBytes(r, r.Intn(60))...)
		nPending := 120 + r.Intn(200)
		type pend struct {
			g     *gatedConn
			key   *KeySpec
			id    string
			ok    bool
			done  chan struct{}
			valid bool
		}
		ps := make([]*pend, nPending)
		for i := range ps {
			p := &pend{done: make(chan struct{})}
			var stream []byte
			if i%2 == 0 {
				k := keys[r.Intn(len(keys))]
				p.key, p.valid = &k, true
				stream, _ = buildOpening(r, k, plaintext)
			} else {
				stream = randBytes(r, 50+r.Intn(100))
			}
			p.g = &gatedConn{memConn: memConn{r: bytes.NewReader(stream), remote: pool[r.Intn(len(pool))]}, gate: make(chan struct{}), reading: make(chan struct{})}
			ps[i] = p
			go func() {
				id, inner, cerr := auth(p.g)
				p.id, p.ok = id, cerr == nil && inner != nil
				close(p.done)
			}()
		}
		stuck := 0
		for _, p := range ps {
			select {
			case <-p.g.reading:
				stuck++
			case <-p.done: // refused without reading anything
			case <-time.After(10 * time.Second):
			}
		}
		c.Progress("C01 many pending: %d connections waiting for their first bytes", stuck)
		for pos, k := range keys {
			st, _ := buildOpening(r, k, plaintext)
			id, inner, cerr := auth(&memConn{r: bytes.NewReader(st), remote: pool[r.Intn(len(pool))]})
			c.Eval(fmt.Sprintf("many-pending|valid|%s|pending=%s", k.Cipher, sizeBucket(stuck)))
			if cerr != nil || inner == nil || !IDsFor(keys, k)[id] {
				c.Violation("C01/valid-key-rejected", map[string]any{"key": k, "pos": pos, "err": fmt.Sprint(cerr), "connections_waiting_for_their_first_bytes": stuck})
				for _, p := range ps {
					close(p.g.gate)
				}
				return
			}
			c.Count("valid_authenticated_with_many_pending", 1)
		}
		for _, p := range ps {
			close(p.g.gate)
		}
		for _, p := range ps {
			<-p.done
			if p.valid && (!p.ok || !IDsFor(keys, *p.key)[p.id]) {
				c.Violation("C01/valid-key-rejected", map[string]any{"key": *p.key, "phase": "one of many connections whose first bytes arrived late", "pending": nPending})
				return
			}
			if !p.valid && p.ok {
				c.Violation("C01/invalid-input-authenticated", map[string]any{"phase": "many pending", "id": p.id})
				return
			}
		}
		c.Max("max_connections_pending_in_the_authenticator", int64(stuck))
	}
}

// c01Rotation: the list is replaced by one in which some ids are kept but their secret or
// cipher changed (key rotation under the same id), some keys are dropped and some added.
// Afterwards exactly the new material authenticates.
func c01Rotation(c *vk.Ctx) {
	r := c.Rng
	for round := 0; round < c.N(30, 150); round++ {
		n := 2 + r.Intn(20)
		A := RandKeys(r, n, nil, 0.1)
		cl := BuildCipherList(A)
		auth := service.NewShadowsocksStreamAuthenticator(cl, nil, nil, nil)
		pool := c01Pool(r)
		try := func(k KeySpec) (string, bool) {
			plaintext := append(sscodec.AddrIP(net.IPv4(8, 8, 8, 8), 80, false), randBytes(r, r.Intn(50))...)
			st, _ := buildOpening(r, k, plaintext)
			id, inner, cerr := auth(&memConn{r: bytes.NewReader(st), remote: pool[r.Intn(len(pool))]})
			return id, cerr == nil && inner != nil
		}
		// use every key once so that usage state (MRU, last client IP) exists
		for _, k := range A {
			try(k)
		}
		for gen := 0; gen < 3; gen++ {
			B := append([]KeySpec(nil), A...)
			var rotatedOld []KeySpec
			for i := range B {
				switch r.Intn(4) {
				case 0: // same id, new secret
					rotatedOld = append(rotatedOld, B[i])
					B[i].Secret = randSecret(r) + "-rot"
				case 1: // same id, other cipher
					old := B[i]
					B[i].Cipher = pick(r, cipherNames)
					if B[i].Cipher != old.Cipher {
						rotatedOld = append(rotatedOld, old)
					}
				}
			}
			if r.Intn(2) == 0 && len(B) > 1 {
				rotatedOld = append(rotatedOld, B[len(B)-1])
				B = B[:len(B)-1]
			}
			B = append(B, KeySpec{ID: fmt.Sprintf("new-%d-%d", round, gen), Cipher: pick(r, cipherNames), Secret: randSecret(r)})
			cl.Update(BuildList(B))
			for _, k := range B {
				id, ok := try(k)
				c.Eval("rotation|current-key|" + k.Cipher)
				if !ok || !IDsFor(B, k)[id] {
					c.Violation("C01/rotation/current-key-rejected-after-update", map[string]any{"key": k, "got_id": id, "authenticated": ok, "generation": gen})
					return
				}
			}
			for _, k := range rotatedOld {
				if len(IDsFor(B, k)) > 0 {
					continue // the same material is configured under some id
				}
				id, ok := try(k)
				c.Eval("rotation|replaced-or-removed-key|" + k.Cipher)
				if ok {
					c.Violation("C01/rotation/replaced-key-still-authenticates-after-update", map[string]any{"key": k, "as_id": id, "generation": gen})
					return
				}
			}
			A = B
			c.Count("rotations_checked", 1)
		}
	}
}

// c01BigConcurrent: many goroutines look up random keys of one large list from different
// client IPs (every success re-orders the list); every lookup must succeed with the right id.
func c01BigConcurrent(c *vk.Ctx) {
	r := c.Rng
	n := 150 + r.Intn(c.N(150, 350))
	keys := RandKeys(r, n, nil, 0.05)
	cl := BuildCipherList(keys)
	auth := service.NewShadowsocksStreamAuthenticator(cl, nil, nil, nil)
	G := 12
	var wg sync.WaitGroup
	for g := 0; g < G; g++ {
		wg.Add(1)
		go func(g int) {
			defer wg.Done()
			gr := c.SubRng("c01big", g)
			pool := c01Pool(gr)
			for i := 0; i < c.N(120, 500); i++ {
				k := keys[gr.Intn(n)]
				if gr.Intn(3) == 0 {
					k = keys[gr.Intn(4)] // hot keys: contention on the front of the list
				}
				plaintext := append(sscodec.AddrIP(net.IPv4(8, 8, 8, 8), 80, false), randBytes(gr, gr.Intn(60))...)
				stream, _ := buildOpening(gr, k, plaintext)
				conn := &memConn{r: bytes.NewReader(stream), remote: pool[gr.Intn(len(pool))]}
				id, inner, cerr := auth(conn)
				c.Eval("big-concurrent|" + k.Cipher)
				if cerr != nil || inner == nil {
					c.Violation("C01/concurrent/valid-key-rejected-under-contention", map[string]any{"key": k, "list_len": n, "err": fmt.Sprint(cerr)})
					return
				}
				if !IDsFor(keys, k)[id] {
					c.Violation("C01/concurrent/wrong-id", map[string]any{"key": k, "got": id})
					return
				}
				c.Count("big_concurrent_authenticated", 1)
			}
		}(g)
	}
	wg.Wait()
}

func init() {
	vk.Register(&vk.Spec{
		ID:    "C01",
		Level: "exploration",
		Rule: "cases are authentication attempts against the real StreamAuthenticateFunc built from PRNG-generated key lists (1..600 keys, 4 ciphers mixed, duplicate secrets), issued in sequences so that earlier attempts permute the MRU/last-client-IP state; " +
			"a case class is (kind, list-size bucket, cipher, position class, client-IP relation | invalid-input class); distinct_nontrivial counts distinct classes observed; every list additionally gets a sweep over every position; a concurrent phase runs lookups against list replacement; rotation of secrets under unchanged ids; 120..320 connections parked in the authenticator before their first bytes while valid clients authenticate",
		Assumptions: []string{
			"the harness codec (sscodec) is an independent implementation of Shadowsocks AEAD; its interoperability with the server is itself exercised by every valid case",
			"in-memory StreamConn at the authenticator boundary; the end-to-end 'no target contacted' clause is observed on real sockets by the C06/C15 rigs and by C01's e2e phase",
		},
		Batches:  func(t string) int { return map[string]int{"quick": 8, "thorough": 32}[t] },
		Parallel: func(t string) int { return 8 },
		Timeout:  func(t string) time.Duration { return 15 * time.Minute },
		NoNetns:  true,
		Run: func(c *vk.Ctx) {
			c.Require("valid_authenticated")
			c.Require("invalid_rejected")
			c.Require("concurrent_authenticated")
			c.Require("straddle_forced")
			c.Require("big_concurrent_authenticated")
			c01Run(c)
			c.Require("rotations_checked")
			c.Require("valid_authenticated_with_many_pending")
			c01Straddle(c)
			c01Rotation(c)
			c01BigConcurrent(c)
			c01ManyPending(c)
		},
	})
}
