package props

import (
	"bytes"
	"fmt"
	"net"
	"sync"
	"sync/atomic"
	"time"
	"verifharness/sscodec"

	"verifharness/lab"
	"verifharness/vk"
)

// C02: TCP relay delivers both byte streams intact, in order, with half-close.
//
// Payloads are position-dependent PRNG streams, so loss, duplication or reordering shows
// at the first differing offset. Ground truth at the boundary: what the scripted target
// received/sent and what the codec client sent/decoded.

func judgeRelay(c *vk.Ctx, prop string, rc relayCase, o *relayOutcome) bool {
	up := makeStream(rc.ID, rc.UpLen)
	down := makeStream(rc.ID^0xABCDEF, rc.DownLen)
	wit := func(extra map[string]any) map[string]any {
		m := map[string]any{"case": rc, "client_err": o.Err, "stalled": o.Stalled}
		if o.Rec != nil {
			sn := o.Rec.Snap()
			m["server_status"] = sn.Status()
			m["server_seq"] = sn.Seq
		}
		for k, v := range extra {
			m[k] = v
		}
		return m
	}
	if o.Err != "" && o.Local == "" {
		c.Inconclusive("dial failed: " + o.Err)
		return true
	}
	if o.ClientLate {
		c.Inconclusive("the harness client needed more than half the handshake timeout to send the address (loaded machine): case not judged")
		return true
	}
	if o.TargetConns == 0 {
		c.Violation(prop+"/target-never-contacted", wit(nil))
		return false
	}
	if rc.Mode == "target-done-early" {
		// the target left after answering: what it read is a prefix of the upload (the rest goes
		// nowhere, legitimately); its complete answer must reach the client, then a clean end
		if !bytes.HasPrefix(up, o.TargetGot) {
			c.Violation(prop+"/client-to-target-stream-differs", wit(map[string]any{"target_got_len": len(o.TargetGot)}))
			return false
		}
		if d := firstDiff(o.ClientGot, down); d >= 0 {
			c.Violation(prop+"/target-to-client-stream-differs", wit(map[string]any{"first_diff_offset": d, "client_got_len": len(o.ClientGot), "want_len": len(down), "history": "target answered and closed; client uploaded more, half-closed, then read the answer"}))
			return false
		}
		if !o.ClientEOF || o.Stalled != "" {
			c.Violation(prop+"/target-half-close-not-propagated-to-client", wit(nil))
			return false
		}
		if !o.HandlerDone || o.Rec == nil {
			c.Violation(prop+"/handler-did-not-finish", wit(nil))
			return false
		}
		return true
	}
	if d := firstDiff(o.TargetGot, up); d >= 0 {
		c.Violation(prop+"/client-to-target-stream-differs", wit(map[string]any{"first_diff_offset": d, "target_got_len": len(o.TargetGot), "want_len": len(up)}))
		return false
	}
	if d := firstDiff(o.ClientGot, down); d >= 0 {
		c.Violation(prop+"/target-to-client-stream-differs", wit(map[string]any{"first_diff_offset": d, "client_got_len": len(o.ClientGot), "want_len": len(down)}))
		return false
	}
	if o.TargetEOFEarly {
		c.Violation(prop+"/target-saw-eof-before-client-half-close", wit(nil))
		return false
	}
	if !o.TargetEOF {
		c.Violation(prop+"/client-half-close-not-propagated-to-target", wit(nil))
		return false
	}
	if !o.ClientEOF {
		c.Violation(prop+"/target-half-close-not-propagated-to-client", wit(nil))
		return false
	}
	if o.Stalled != "" {
		c.Violation(prop+"/stalled", wit(nil))
		return false
	}
	if !o.HandlerDone || o.Rec == nil {
		c.Violation(prop+"/handler-did-not-finish", wit(nil))
		return false
	}
	if st := o.Rec.Snap().Status(); st != "OK" {
		c.Violation(prop+"/status-not-OK-for-clean-exchange", wit(nil))
		return false
	}
	return true
}

func c02Run(c *vk.Ctx) {
	lab.MustSetup(c.RunDir)
	r := c.Rng
	keys := []KeySpec{}
	for i, cn := range cipherNames {
		keys = append(keys, KeySpec{ID: fmt.Sprintf("k-%d", i), Cipher: cn, Secret: randSecret(r)})
	}
	keys = append(keys, RandKeys(r, 6, nil, 0)...)
	env := newRelayEnv(keys, TCPRigOpts{Timeout: relayTimeout}, TCPRigOpts{Timeout: relayTimeout})
	defer env.Close()
	n := c.N(120, 600)
	cases := make([]relayCase, n)
	for i := range cases {
		cases[i] = genRelayCase(r, c.Batch, keys[:4+r.Intn(len(keys)-3)], c.Thorough() && i%10 == 0)
		switch {
		case i%40 == 7 && cases[i].Mode != "concurrent":
			// one direction ends, the other pauses for longer than any "half-open grace period" and carries on
			cases[i].TailDelayMs = 6500
			cases[i].SlowMs, cases[i].CloseLn = 0, false
			cases[i].UpLen, cases[i].DownLen, cases[i].TailAfter = max(cases[i].UpLen, 4000), max(cases[i].DownLen, 4000), 2000
		case i%40 == 23:
			// the target starts reading 1.5 s late while the client uploads far more than the socket
			// buffers hold (zero window towards the target for a while): everything still arrives
			cases[i].Mode, cases[i].TgtFirst = "client-fin-first", false
			cases[i].SlowRead, cases[i].UpLen = 1500, 700000+r.Intn(500000)
			cases[i].SlowMs, cases[i].CloseLn, cases[i].TailDelayMs = 0, false, 0
			if cases[i].Chunks[0] < 100 {
				cases[i].Chunks = []int{0x3FFF}
			}
		case i%20 == 3:
			cases[i].Mode = "target-done-early"
			cases[i].DownLen = 500000 + r.Intn(700000)
			cases[i].UpLen = 5000 + r.Intn(40000)
			cases[i].SlowMs, cases[i].SlowRead, cases[i].CloseLn, cases[i].TgtFirst, cases[i].TailDelayMs = 0, 0, false, false, 0
		}
	}
	var wg sync.WaitGroup
	work := make(chan int)
	var stop bool
	var smu sync.Mutex
	for w := 0; w < 10; w++ {
		wg.Add(1)
		wr := c.SubRng("c02w", w)
		go func() {
			defer wg.Done()
			for i := range work {
				smu.Lock()
				s := stop
				smu.Unlock()
				if s {
					continue
				}
				rc := cases[i]
				c.Progress("C02 %+v", rc)
				o := runRelayCase(env, wr, rc)
				c.Eval(rc.class())
				if judgeRelay(c, "C02", rc, o) {
					c.Count("exchanges_intact", 1)
					c.Count("bytes_up_verified", int64(rc.UpLen))
					c.Count("bytes_down_verified", int64(rc.DownLen))
					c.Count("mode_"+rc.Mode, 1)
					if rc.SlowMs > 0 {
						c.Count("slow_exchanges_longer_than_handshake_timeout", 1)
					}
					if rc.AddrType == 3 {
						c.Count("domain_targets", 1)
					}
					if rc.SlowRead >= 1000 {
						c.Count("uploads_against_a_target_that_reads_late", 1)
					}
					if rc.TailDelayMs > 0 {
						c.Count("long_pauses_after_a_half_close", 1)
					}
					if o.LnClosedMid {
						c.Count("relays_outliving_their_listener", 1)
					}
				} else {
					smu.Lock()
					stop = true
					smu.Unlock()
				}
				if i < 2 {
					c.Sample(rc)
				}
			}
		}()
	}
	for i := range cases {
		work <- i
	}
	close(work)
	wg.Wait()
	smu.Lock()
	stopped := stop
	smu.Unlock()
	var sbad atomic.Bool
	// handshake storm: many short connections whose handshakes overlap (32 at a time) - whatever
	// one connection's key search buffers must stay its own until its stream has consumed it
	if !stopped {
		storm := make([]relayCase, c.N(1200, 4000))
		for i := range storm {
			rc := genRelayCase(r, c.Batch, keys, false)
			rc.UpLen, rc.DownLen = r.Intn(300), r.Intn(300)
			rc.SlowMs, rc.SlowRead, rc.PauseMs, rc.CloseLn, rc.TailAfter = 0, 0, 0, false, 0
			if rc.AddrType == 3 {
				rc.AddrType, rc.ShortName, rc.DomainFam = 1, "", ""
			}
			storm[i] = rc
		}
		var swg sync.WaitGroup
		swork := make(chan int)
		for w := 0; w < 32; w++ {
			swg.Add(1)
			wr := c.SubRng("c02storm", w)
			go func() {
				defer swg.Done()
				for i := range swork {
					if sbad.Load() {
						continue
					}
					rc := storm[i]
					o := runRelayCase(env, wr, rc)
					if judgeRelay(c, "C02", rc, o) {
						c.Count("storm_exchanges_intact", 1)
					} else {
						sbad.Store(true)
					}
				}
			}()
		}
		c.Progress("C02 handshake storm: %d short exchanges, 32 at a time", len(storm))
		for i := range storm {
			swork <- i
		}
		close(swork)
		swg.Wait()
		c.Eval("storm|32-overlapping-handshakes")
	}
	// history: 140..220 connections whose target cannot be reached (nothing listens there), then
	// clean exchanges: earlier failures of OTHER connections do not cost this one anything
	if !stopped && !sbad.Load() {
		nFail := 140 + r.Intn(80)
		var fwg sync.WaitGroup
		for w := 0; w < 16; w++ {
			fwg.Add(1)
			fr := c.SubRng("c02fail", w)
			go func(w int) {
				defer fwg.Done()
				for i := w; i < nFail; i += 16 {
					k := keys[fr.Intn(len(keys))]
					cl, err := DialSS(env.RigRec.Addr4(), randSrc4(fr), k, randBytes(fr, k.Codec().C.SaltSize))
					if err != nil {
						continue
					}
					cl.WriteRaw(cl.Enc.Encode(append(sscodec.AddrIP(caseIP4(nextID(c.Batch)&0xffffff), 9, false), 'f'), nil)) // port 9: refused
					cl.Conn.CloseWrite()
					cl.ReadAllPlain(time.Now().Add(relayB))
					cl.Conn.Close()
				}
			}(w)
		}
		fwg.Wait()
		for i := 0; i < 6; i++ {
			rc := genRelayCase(r, c.Batch, keys, false)
			rc.Raw, rc.SlowMs, rc.SlowRead, rc.CloseLn, rc.TailDelayMs = false, 0, 0, false, 0
			o := runRelayCase(env, r, rc)
			if !judgeRelay(c, "C02", rc, o) {
				return
			}
		}
		c.Count("exchanges_after_many_failed_dials", 6)
		c.Max("max_failed_dials_before_an_exchange", int64(nFail))
		c.Eval("history|failed-dials-then-clean-exchanges")
		// one host name, two ports (two services on one host): each connection reaches the port it asked for
		hub2 := StartTargetHub(0)
		defer hub2.Close()
		for rep := 0; rep < 3; rep++ {
			caseN := nextID(c.Batch)
			ip := caseIP4(caseN & 0xffffff)
			name := fmt.Sprintf("two-ports-%x.lab", caseN&0xffffff)
			env.setName(name, []net.IP{ip})
			for _, h := range []struct {
				hub *TargetHub
				tag byte
			}{{env.Hub, 'A'}, {hub2, 'B'}} {
				tag := h.tag
				h.hub.On(ip.String(), func(tc *TargetConn) {
					buf := make([]byte, 64)
					tc.SetReadDeadline(time.Now().Add(relayB))
					n, _ := tc.Read(buf)
					tc.Write(append([]byte{tag}, buf[:n]...))
					tc.Close()
				})
			}
			k := keys[r.Intn(len(keys))]
			order := []struct {
				port int
				tag  byte
			}{{env.Hub.Port, 'A'}, {hub2.Port, 'B'}}
			if rep%2 == 1 {
				order[0], order[1] = order[1], order[0]
			}
			for _, o := range order {
				cl, err := DialSS(env.RigRec.Addr4(), randSrc4(r), k, randBytes(r, k.Codec().C.SaltSize))
				if err != nil {
					continue
				}
				msg := putU64(nextID(c.Batch))
				cl.WriteRaw(cl.Enc.Encode(append(sscodec.AddrDomain(name, o.port), msg...), nil))
				got, _ := cl.ReadAllPlain(time.Now().Add(relayB))
				cl.Conn.Close()
				c.Eval("one-name-two-ports")
				if !bytes.Equal(got, append([]byte{o.tag}, msg...)) {
					c.Violation("C02/connection-reached-another-port-of-the-target-host", map[string]any{"host_name": name, "port_requested": o.port, "answered_by_service": string(got[:min(1, len(got))]), "expected_service": string(o.tag), "reply_len": len(got)})
					return
				}
			}
			env.Hub.Off(ip.String())
			hub2.Off(ip.String())
			c.Count("one_name_two_ports_checked", 1)
		}
	}
	if u := env.Hub.UnexpectedList(); len(u) > 0 {
		c.Violation("C02/unexpected-target-connection", u[:min(len(u), 5)])
	}
	_ = bytes.Equal
}

func init() {
	vk.Register(&vk.Spec{
		ID:          "C02",
		Level:       "exploration",
		Rule:        "each case is one authenticated exchange through the real StreamServe/stream handler on real sockets: cipher, address type (1/3 via scripted DNS/4), payload sizes 0..1 MiB each way, chunk-size lists (1..16383, address alone or coalesced, zero-length chunks), first TCP write cut around the 50-byte key-search prefix with pauses, who speaks first, who half-closes first (client-fin-first / target-fin-first with data after the peer's FIN / concurrent), recording-wrapper or raw *net.TCPConn (ReadFrom/WriteTo fast paths), client over IPv4 or IPv6, the connection's listener closed once the relay is established (1 in 10); class = tuple of those buckets",
		Assumptions: []string{"B = 15 s bounded-progress restatement for 'arrives' (normal < 50 ms)", "6 exchanges run concurrently per child"},
		Batches:     func(t string) int { return map[string]int{"quick": 6, "thorough": 24}[t] },
		Parallel:    func(t string) int { return 6 },
		Timeout:     func(t string) time.Duration { return 25 * time.Minute },
		Run: func(c *vk.Ctx) {
			c.Require("exchanges_intact")
			c.Require("mode_client-fin-first")
			c.Require("mode_target-fin-first")
			c.Require("mode_concurrent")
			c.Require("domain_targets")
			c.Require("slow_exchanges_longer_than_handshake_timeout")
			c.Require("relays_outliving_their_listener")
			c.Require("storm_exchanges_intact")
			c.Require("mode_target-done-early")
			c.Require("long_pauses_after_a_half_close")
			c.Require("exchanges_after_many_failed_dials")
			c.Require("uploads_against_a_target_that_reads_late")
			c.Require("one_name_two_ports_checked")
			c02Run(c)
		},
	})
}
