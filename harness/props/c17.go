package props

import (
	"fmt"
	"math"
	"math/rand"
	"net"
	"sort"
	"sync"
	"sync/atomic"
	"time"

	oprom "github.com/Jigsaw-Code/outline-ss-server/prometheus"
	"github.com/Jigsaw-Code/outline-ss-server/service"
	"github.com/Jigsaw-Code/outline-ss-server/service/metrics"
	"github.com/prometheus/client_golang/prometheus"

	"verifharness/vk"
)

// C17: tunnel time equals the time each client actually had a tunnel open.
//
// Sequential phase: controlled clock (hook H1), random histories of TCP open/auth/close,
// unauthenticated open/close, UDP add/remove, clock advances and scrapes; after every scrape
// tunnel_time_seconds{key} must equal an independent interval-union account.
// Concurrent phase: ticking clock (every reading is strictly larger); opens/closes from many
// goroutines against a scrape loop; no panic, counters monotone, final totals within the
// lower/upper bounds computed from clock readings taken around every call.

type fakeNetConn struct {
	remote, local net.Addr
}

func (f *fakeNetConn) Read(b []byte) (int, error)         { return 0, nil }
func (f *fakeNetConn) Write(b []byte) (int, error)        { return len(b), nil }
func (f *fakeNetConn) Close() error                       { return nil }
func (f *fakeNetConn) LocalAddr() net.Addr                { return f.local }
func (f *fakeNetConn) RemoteAddr() net.Addr               { return f.remote }
func (f *fakeNetConn) SetDeadline(t time.Time) error      { return nil }
func (f *fakeNetConn) SetReadDeadline(t time.Time) error  { return nil }
func (f *fakeNetConn) SetWriteDeadline(t time.Time) error { return nil }

type ctlClock struct {
	ns   atomic.Int64
	tick int64 // added on every reading (0 = frozen clock)
}

var clockBase = time.Date(2030, 1, 1, 0, 0, 0, 0, time.UTC)

func (c *ctlClock) Now() time.Time {
	if c.tick != 0 {
		return clockBase.Add(time.Duration(c.ns.Add(c.tick)))
	}
	return clockBase.Add(time.Duration(c.ns.Load()))
}
func (c *ctlClock) Advance(d time.Duration) { c.ns.Add(int64(d)) }

type c17Tunnel struct {
	kind   string // tcp, udp, tcp-unauth
	ip     string
	key    string
	tcp    service.TCPConnMetrics
	udp    service.UDPConnMetrics
	authed bool
}

type ipKey struct{ ip, key string }

type c17Account struct {
	active map[ipKey]int
	since  map[ipKey]time.Duration
	total  map[ipKey]time.Duration
}

func (a *c17Account) open(k ipKey, now time.Duration) {
	if a.active[k] == 0 {
		a.since[k] = now
	}
	a.active[k]++
}
func (a *c17Account) close(k ipKey, now time.Duration) {
	a.active[k]--
	if a.active[k] == 0 {
		a.total[k] += now - a.since[k]
	}
}
func (a *c17Account) upTo(k ipKey, now time.Duration) time.Duration {
	t := a.total[k]
	if a.active[k] > 0 {
		t += now - a.since[k]
	}
	return t
}

func c17Sequential(c *vk.Ctx) {
	r := c.Rng
	histories := c.N(250, 1500)
	for h := 0; h < histories; h++ {
		clk := &ctlClock{}
		oprom.VerifSetNow(clk.Now)
		db := &fakeDB{}
		sm, err := oprom.NewServiceMetrics(db)
		if err != nil {
			fatalf("NewServiceMetrics: %v", err)
		}
		reg := prometheus.NewRegistry()
		reg.MustRegister(sm)
		nIP, nKey := 1+r.Intn(4), 1+r.Intn(3)
		ips := make([]net.IP, nIP)
		for i := range ips {
			ips[i], _ = genIP(r)
			// distinct textual identity per client: regenerate on duplicates
			for j := 0; j < i; j++ {
				if ips[j].Equal(ips[i]) {
					ips[i] = net.IPv4(45, 1, byte(h), byte(10+i)).To4()
				}
			}
		}
		// scoped (zoned) link-local clients, as the kernel reports them for fe80::/10 peers
		zoneOf := map[string]string{}
		if h%3 == 0 {
			ips[0] = net.ParseIP(fmt.Sprintf("fe80::%x:%x", 1+r.Intn(0xffff), 1+r.Intn(0xffff)))
		}
		for _, ip := range ips {
			if ip.To4() == nil && ipClass(ip) == "link-local" && (h%3 == 0 || r.Intn(2) == 0) {
				zoneOf[ip.String()] = pick(r, []string{"eth0", "vlab1", "2"})
				c.Count("zoned_clients", 1)
			}
		}
		keys := make([]string, nKey)
		for i := range keys {
			keys[i] = fmt.Sprintf("key-%d", i)
		}
		if h%5 == 1 {
			// short numeric ids (as Outline issues them) and addresses that differ by a trailing digit:
			// (10.0.0.1, "23") and (10.0.0.12, "3") are different clients of different keys
			b := byte(1 + r.Intn(9))
			ips = []net.IP{net.IPv4(10, 0, 0, b).To4(), net.IPv4(10, 0, 0, b*10+2).To4(), net.ParseIP(fmt.Sprintf("2001:db8::%d", b)), net.ParseIP(fmt.Sprintf("2001:db8::%d2", b))}
			keys = []string{"23", "3", "2", "1"}
			nIP, nKey = len(ips), len(keys)
			c.Count("histories_with_concatenation_prone_ids", 1)
		}
		// client ports: random, or (every third history) from a set of two, so that a client's TCP and
		// UDP tunnels often share a port number
		port := func() int { return 1024 + r.Intn(60000) }
		if h%3 == 2 {
			port = func() int { return 40001 + r.Intn(2) }
			c.Count("histories_with_shared_client_ports", 1)
		}
		acc := &c17Account{map[ipKey]int{}, map[ipKey]time.Duration{}, map[ipKey]time.Duration{}}
		var open []*c17Tunnel
		nOps := 10 + r.Intn(c.N(120, 300))
		var trace []string
		scrapes := 0
		lastVals := map[string]float64{}
		check := func() bool {
			mfs, err := reg.Gather()
			if err != nil {
				c.Violation("C17/gather-error", err.Error())
				return false
			}
			scrapes++
			now := time.Duration(clk.ns.Load())
			perKey := counterBy(mfs, "tunnel_time_seconds", "access_key")
			perLoc := counterBy(mfs, "tunnel_time_seconds_per_location", "location")
			wantKey := map[string]float64{}
			wantLoc := map[string]float64{}
			for k := range acc.since {
				s := acc.upTo(k, now).Seconds()
				wantKey[k.key] += s
				loc, _ := expectedLocation(net.ParseIP(k.ip), true)
				wantLoc[loc] += s
			}
			sumKey, sumLoc := 0.0, 0.0
			for k, v := range perKey {
				sumKey += v
				if v+1e-9 < lastVals["k/"+k] {
					c.Violation("C17/counter-decreased", map[string]any{"key": k, "before": lastVals["k/"+k], "after": v, "trace": trace})
					return false
				}
				lastVals["k/"+k] = v
			}
			for _, v := range perLoc {
				sumLoc += v
			}
			for _, k := range keys {
				if math.Abs(perKey[k]-wantKey[k]) > 1e-6 {
					c.Violation("C17/tunnel-time-per-key-mismatch", map[string]any{"key": k, "reported_s": perKey[k], "expected_s": wantKey[k], "scrape": scrapes, "trace": trace})
					return false
				}
			}
			for loc, want := range wantLoc {
				if math.Abs(perLoc[loc]-want) > 1e-6 {
					c.Violation("C17/tunnel-time-per-location-mismatch", map[string]any{"location": loc, "reported_s": perLoc[loc], "expected_s": want, "trace": trace})
					return false
				}
			}
			if math.Abs(sumKey-sumLoc) > 1e-6 {
				c.Violation("C17/per-location-total-differs-from-per-key-total", map[string]any{"per_key": sumKey, "per_location": sumLoc, "trace": trace})
				return false
			}
			c.Count("scrapes_checked", 1)
			return true
		}
		ok := true
		classes := map[string]bool{}
		if h%7 == 3 {
			// many tunnels of ONE client at once (users behind one NAT address sharing a key): 130, 300 and,
			// once per run, 33000 - past the range of any narrow counter; the tunnel lasts until the last closes
			many := 130
			if h%14 == 10 {
				many = 300
			}
			if h == 3 {
				many = 33000
			}
			now := time.Duration(clk.ns.Load())
			for i := 0; i < many; i++ {
				ip, key := ips[0], keys[0]
				var t *c17Tunnel
				if i%3 == 2 {
					m := sm.AddUDPNatEntry(&net.UDPAddr{IP: ip, Port: 1024 + i%60000, Zone: zoneOf[ip.String()]}, key)
					t = &c17Tunnel{kind: "udp", ip: ip.String(), key: key, udp: m, authed: true}
				} else {
					conn := &fakeNetConn{remote: &net.TCPAddr{IP: ip, Port: 1024 + i%60000, Zone: zoneOf[ip.String()]}, local: &net.TCPAddr{IP: net.IPv4(203, 0, 113, 10), Port: 9000}}
					m := sm.AddOpenTCPConnection(conn)
					m.AddAuthenticated(key)
					t = &c17Tunnel{kind: "tcp", ip: ip.String(), key: key, tcp: m, authed: true}
				}
				acc.open(ipKey{t.ip, key}, now)
				open = append(open, t)
			}
			trace = append(trace, fmt.Sprintf("%v open %d tunnels (tcp and udp) of %s %s at once", now, many, ips[0], keys[0]))
			classes["many-tunnels-of-one-client"] = true
			c.Count("histories_with_many_tunnels_of_one_client", 1)
		}
		for op := 0; op < nOps && ok; op++ {
			now := time.Duration(clk.ns.Load())
			switch x := r.Intn(20); {
			case x < 5: // open authenticated TCP
				ip, key := ips[r.Intn(nIP)], keys[r.Intn(nKey)]
				conn := &fakeNetConn{remote: &net.TCPAddr{IP: ip, Port: port(), Zone: zoneOf[ip.String()]}, local: &net.TCPAddr{IP: net.IPv4(203, 0, 113, 10), Port: 9000}}
				m := sm.AddOpenTCPConnection(conn)
				t := &c17Tunnel{kind: "tcp", ip: ip.String(), key: key, tcp: m}
				if r.Intn(6) == 0 {
					// connected, handshake not sent yet: the clock moves before it authenticates (the
					// tunnel starts when it authenticates, not when it connected)
					d := time.Duration(1+r.Intn(30)) * time.Second
					clk.Advance(d)
					now = time.Duration(clk.ns.Load())
					trace = append(trace, fmt.Sprintf("tcp connected, %v before its handshake", d))
					classes["handshake-after-a-wait"] = true
				}
				if r.Intn(5) > 0 {
					m.AddAuthenticated(key)
					t.authed = true
					acc.open(ipKey{t.ip, key}, now)
					if acc.active[ipKey{t.ip, key}] > 1 {
						classes["overlap"] = true
					}
				} else {
					t.kind = "tcp-unauth"
					classes["unauthenticated"] = true
				}
				open = append(open, t)
				trace = append(trace, fmt.Sprintf("%v open %s %s %s", now, t.kind, t.ip, key))
			case x < 8: // add UDP association
				ip, key := ips[r.Intn(nIP)], keys[r.Intn(nKey)]
				m := sm.AddUDPNatEntry(&net.UDPAddr{IP: ip, Port: port(), Zone: zoneOf[ip.String()]}, key)
				t := &c17Tunnel{kind: "udp", ip: ip.String(), key: key, udp: m, authed: true}
				acc.open(ipKey{t.ip, key}, now)
				if acc.active[ipKey{t.ip, key}] > 1 {
					classes["overlap"] = true
				}
				open = append(open, t)
				trace = append(trace, fmt.Sprintf("%v add udp %s %s", now, t.ip, key))
			case x < 13 && len(open) > 0: // close one
				i := r.Intn(len(open))
				t := open[i]
				open = append(open[:i], open[i+1:]...)
				switch t.kind {
				case "tcp", "tcp-unauth":
					status := "OK"
					if !t.authed {
						status = pick(r, []string{"ERR_CIPHER", "ERR_REPLAY_CLIENT", "ERR_REPLAY_SERVER"})
						t.tcp.AddProbe(status, "eof", int64(r.Intn(100)))
					}
					t.tcp.AddClosed(status, metrics.ProxyMetrics{ClientProxy: int64(r.Intn(1000)), ProxyClient: int64(r.Intn(1000))}, time.Second)
				case "udp":
					t.udp.RemoveNatEntry()
				}
				if t.authed {
					acc.close(ipKey{t.ip, t.key}, now)
				}
				trace = append(trace, fmt.Sprintf("%v close %s %s %s", now, t.kind, t.ip, t.key))
				if len(open) == 0 {
					classes["all-closed"] = true
				}
			case x < 17:
				var d time.Duration
				switch r.Intn(4) {
				case 0:
					d = 0
				case 1:
					d = time.Duration(r.Intn(1000)) * time.Microsecond
				default:
					d = time.Duration(r.Intn(100000)) * time.Millisecond
				}
				clk.Advance(d)
				trace = append(trace, fmt.Sprintf("advance %v", d))
			default:
				trace = append(trace, "scrape")
				ok = check()
				if len(open) == 0 {
					classes["scrape-while-idle"] = true
				} else {
					classes["scrape-while-active"] = true
				}
			}
			if len(trace) > 400 {
				trace = trace[len(trace)-400:]
			}
		}
		if ok {
			// close everything, advance, final scrape
			for _, t := range open {
				now := time.Duration(clk.ns.Load())
				if t.udp != nil {
					t.udp.RemoveNatEntry()
				} else {
					t.tcp.AddClosed("OK", metrics.ProxyMetrics{}, time.Second)
				}
				if t.authed {
					acc.close(ipKey{t.ip, t.key}, now)
				}
				trace = append(trace, fmt.Sprintf("%v final-close %s %s %s", now, t.kind, t.ip, t.key))
			}
			clk.Advance(time.Duration(r.Intn(100)) * time.Second)
			trace = append(trace, "final scrape")
			ok = check()
		}
		cl := []string{}
		for k := range classes {
			cl = append(cl, k)
		}
		sort.Strings(cl)
		c.Eval(fmt.Sprintf("seq|ips=%d|keys=%d|ops=%s|%v", nIP, nKey, sizeBucket(nOps), cl))
		if h == 0 {
			c.Sample(map[string]any{"sequential_history_tail": trace[max(0, len(trace)-12):]})
		}
		if !ok {
			return
		}
	}
}

type span struct{ lo, hi int64 }

func unionLen(sp []span) int64 {
	sort.Slice(sp, func(i, j int) bool { return sp[i].lo < sp[j].lo })
	var total, end int64
	end = math.MinInt64
	for _, s := range sp {
		if s.hi <= s.lo {
			continue
		}
		if s.lo > end {
			total += s.hi - s.lo
			end = s.hi
		} else if s.hi > end {
			total += s.hi - end
			end = s.hi
		}
	}
	return total
}

func c17Concurrent(c *vk.Ctx) {
	rounds := c.N(6, 30)
	for round := 0; round < rounds; round++ {
		clk := &ctlClock{tick: int64(time.Millisecond)}
		oprom.VerifSetNow(clk.Now)
		db := &fakeDB{delay: 20 * time.Microsecond}
		sm, _ := oprom.NewServiceMetrics(db)
		reg := prometheus.NewRegistry()
		reg.MustRegister(sm)
		G := 4 + c.Rng.Intn(8)
		shared := c.Rng.Intn(2) == 0 // goroutines share (ip,key) pairs => overlapping tunnels of one client
		var mu sync.Mutex
		inner := map[ipKey][]span{}
		outer := map[ipKey][]span{}
		stop := make(chan struct{})
		var swg sync.WaitGroup
		var scrapes atomic.Int64
		var monoViol atomic.Value
		for scr := 0; scr < 2; scr++ { // two scrapers at once (e.g. two Prometheus servers)
			swg.Add(1)
			go func() {
				defer swg.Done()
				last := map[string]float64{}
				for {
					select {
					case <-stop:
						return
					default:
					}
					mfs, err := reg.Gather()
					if err != nil {
						monoViol.Store("gather error: " + err.Error())
						return
					}
					for k, v := range counterBy(mfs, "tunnel_time_seconds", "access_key") {
						if v+1e-9 < last[k] {
							monoViol.Store(fmt.Sprintf("tunnel_time_seconds{%s} went from %v to %v", k, last[k], v))
						}
						last[k] = v
					}
					scrapes.Add(1)
				}
			}()
		}
		var wg sync.WaitGroup
		for g := 0; g < G; g++ {
			wg.Add(1)
			go func(g int) {
				defer wg.Done()
				gr := c.SubRng("c17conc", round*64+g)
				for i := 0; i < c.N(150, 400); i++ {
					var k ipKey
					if shared {
						k = ipKey{fmt.Sprintf("45.9.%d.%d", round, 1+gr.Intn(3)), fmt.Sprintf("key-%d", gr.Intn(2))}
					} else {
						k = ipKey{fmt.Sprintf("45.8.%d.%d", g, 1+gr.Intn(3)), fmt.Sprintf("key-%d", g%3)}
					}
					ip := net.ParseIP(k.ip)
					udp := gr.Intn(3) == 0
					loOpen := int64(clk.Now().Sub(clockBase))
					var tm service.TCPConnMetrics
					var um service.UDPConnMetrics
					if udp {
						um = sm.AddUDPNatEntry(&net.UDPAddr{IP: ip, Port: 2000 + g}, k.key)
					} else {
						tm = sm.AddOpenTCPConnection(&fakeNetConn{remote: &net.TCPAddr{IP: ip, Port: 2000 + g}, local: &net.TCPAddr{IP: net.IPv4(203, 0, 113, 10), Port: 9000}})
						tm.AddAuthenticated(k.key)
					}
					hiOpen := int64(clk.Now().Sub(clockBase))
					if gr.Intn(2) == 0 {
						time.Sleep(time.Duration(gr.Intn(200)) * time.Microsecond)
					}
					loClose := int64(clk.Now().Sub(clockBase))
					if udp {
						um.RemoveNatEntry()
					} else {
						tm.AddClosed("OK", metrics.ProxyMetrics{}, time.Second)
					}
					hiClose := int64(clk.Now().Sub(clockBase))
					mu.Lock()
					inner[k] = append(inner[k], span{hiOpen, loClose})
					outer[k] = append(outer[k], span{loOpen, hiClose})
					mu.Unlock()
				}
			}(g)
		}
		wg.Wait()
		close(stop)
		swg.Wait()
		if v := monoViol.Load(); v != nil {
			c.Violation("C17/concurrent/counter-decreased", v)
			return
		}
		mfs, err := reg.Gather()
		if err != nil {
			c.Violation("C17/gather-error", err.Error())
			return
		}
		perKey := counterBy(mfs, "tunnel_time_seconds", "access_key")
		lo, hi := map[string]int64{}, map[string]int64{}
		for k, sp := range inner {
			lo[k.key] += unionLen(sp)
		}
		for k, sp := range outer {
			hi[k.key] += unionLen(sp)
		}
		for key := range hi {
			got := perKey[key]
			if got < float64(lo[key])/1e9-1e-6 || got > float64(hi[key])/1e9+1e-6 {
				c.Violation("C17/concurrent/total-outside-bounds", map[string]any{"key": key, "reported_s": got, "lower_s": float64(lo[key]) / 1e9, "upper_s": float64(hi[key]) / 1e9, "shared_clients": shared, "goroutines": G})
				return
			}
		}
		sumLoc := 0.0
		for loc, v := range counterBy(mfs, "tunnel_time_seconds_per_location", "location") {
			sumLoc += v
			if loc == "" && v != 0 {
				// the database is enabled in this rig: no client maps to the empty label
				c.Violation("C17/concurrent/time-reported-under-empty-location", map[string]any{"seconds": v})
				return
			}
		}
		sumKey := 0.0
		for _, v := range perKey {
			sumKey += v
		}
		if math.Abs(sumLoc-sumKey) > 1e-6 {
			c.Violation("C17/concurrent/per-location-total-differs", map[string]any{"per_key": sumKey, "per_location": sumLoc})
			return
		}
		c.Count("concurrent_rounds", 1)
		c.Count("concurrent_scrapes", scrapes.Load())
		c.Eval(fmt.Sprintf("conc|goroutines=%d|shared-clients=%v", G, shared))
	}
}

// c17SimultaneousFirstOpens: several tunnels of one NEW client (same IP, same key) are opened at
// the same instant (barrier), with a database that takes a while to answer. Afterwards all but
// one are closed: the client still has a tunnel, so its time keeps counting.
func c17SimultaneousFirstOpens(c *vk.Ctx) bool {
	r := c.Rng
	clk := &ctlClock{}
	oprom.VerifSetNow(clk.Now)
	db := &fakeDB{delay: 150 * time.Microsecond}
	sm, _ := oprom.NewServiceMetrics(db)
	reg := prometheus.NewRegistry()
	reg.MustRegister(sm)
	want := 0.0
	for round := 0; round < c.N(150, 600); round++ {
		G := 2 + r.Intn(3)
		ip := net.IPv4(45, 91, byte(round>>8), byte(round)).To4()
		key := "sim-key"
		closers := make([]func(), G)
		var wg sync.WaitGroup
		start := make(chan struct{})
		for g := 0; g < G; g++ {
			wg.Add(1)
			udp := r.Intn(2) == 0
			go func(g int) {
				defer wg.Done()
				<-start
				if udp {
					um := sm.AddUDPNatEntry(&net.UDPAddr{IP: ip, Port: 3000 + g}, key)
					closers[g] = um.RemoveNatEntry
				} else {
					tm := sm.AddOpenTCPConnection(&fakeNetConn{remote: &net.TCPAddr{IP: ip, Port: 3000 + g}, local: &net.TCPAddr{IP: net.IPv4(203, 0, 113, 10), Port: 9000}})
					tm.AddAuthenticated(key)
					closers[g] = func() { tm.AddClosed("OK", metrics.ProxyMetrics{}, time.Second) }
				}
			}(g)
		}
		close(start)
		wg.Wait()
		for g := 0; g < G-1; g++ {
			closers[g]()
		}
		clk.Advance(10 * time.Second)
		want += 10
		mfs, _ := reg.Gather()
		got := counterBy(mfs, "tunnel_time_seconds", "access_key")[key]
		c.Eval(fmt.Sprintf("simultaneous-first-opens|tunnels=%d", G))
		if math.Abs(got-want) > 1e-6 {
			c.Violation("C17/time-lost-after-simultaneous-first-opens", map[string]any{"tunnels_opened_at_once": G, "closed": G - 1, "reported_s": got, "expected_s": want, "round": round})
			return false
		}
		closers[G-1]()
		clk.Advance(3 * time.Second)
	}
	c.Count("simultaneous_first_open_rounds", int64(c.N(150, 600)))
	return true
}

func init() {
	vk.Register(&vk.Spec{
		ID:    "C17",
		Level: "exploration",
		Rule: "sequential: PRNG histories (TCP open/auth/close, unauthenticated open/close, UDP add/remove, several tunnels per client, clock advances incl. zero, scrapes anywhere) against the real collectors with the clock hook; after each scrape reported per-key and per-location seconds are compared with an independent interval-union account (incl. zoned link-local clients); end to end: real handlers + collectors, refused replays/probes held open across clock jumps, UDP association open at listener shutdown; " +
			"concurrent: ticking clock, opens/closes from 4..11 goroutines (own or shared clients) against a scrape loop, totals checked against bounds from clock readings around every call; class = (phase, #ips, #keys, history length bucket, features seen: overlap/unauthenticated/scrape-while-active/idle)",
		Assumptions: []string{"clock hook H1 (prometheus.VerifSetNow) replaces the collectors' time source", "fake IP database labels locations deterministically"},
		Batches:     func(t string) int { return map[string]int{"quick": 6, "thorough": 24}[t] },
		Parallel:    func(t string) int { return 6 },
		Timeout:     func(t string) time.Duration { return 15 * time.Minute },
		Run: func(c *vk.Ctx) {
			c.Require("scrapes_checked")
			c.Require("concurrent_rounds")
			c.Require("e2e_scrapes_checked")
			c.Require("simultaneous_first_open_rounds")
			c.Require("zoned_clients")
			c.Require("histories_with_many_tunnels_of_one_client")
			c.Require("histories_with_concatenation_prone_ids")
			c.Require("histories_with_shared_client_ports")
			c.Require("e2e_udp_shutdown_cases")
			c17Sequential(c)
			c17Concurrent(c)
			if !c17SimultaneousFirstOpens(c) {
				return
			}
			c17EndToEnd(c)
		},
	})
}

var _ = rand.Int
