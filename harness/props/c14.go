package props

import (
	"errors"
	"fmt"
	"math/rand"
	"net"
	"os"
	"strings"
	"sync"
	"sync/atomic"
	"time"

	"verifharness/lab"
	"verifharness/vk"
)

// C14: UDP associations live as long as promised and are always reclaimed.
//
// Oracle over the event log of hook H2 (every SetReadDeadline / WriteTo / ReadFrom / Close on
// the real outbound socket, stamped with one clock) plus client send stamps taken BEFORE
// sending (so "deadline >= send + timeout" is sound under any load) and the metrics recorder.

type c14Send struct {
	T   time.Time
	DNS bool
}

const dnsTimeout = 17 * time.Second

// checkAssocLog judges one outbound socket's log.
func checkAssocLog(c *vk.Ctx, scen string, s *NatSock, sends []c14Send, natTimeout time.Duration, shutdownAt time.Time) bool {
	evs := s.Snap()
	wit := func(extra map[string]any) map[string]any {
		m := map[string]any{"scenario": scen, "nat_timeout": natTimeout.String(), "socket": s.Local}
		var lines []string
		for _, e := range evs {
			l := fmt.Sprintf("%s %s", e.T.Format("05.000"), e.Kind)
			if !e.DL.IsZero() {
				l += " dl=+" + e.DL.Sub(e.T).Round(time.Millisecond).String()
			}
			if e.Addr != "" {
				l += " " + e.Addr
			}
			if e.Err != "" {
				l += " err=" + e.Err
			}
			lines = append(lines, l)
		}
		if len(lines) > 40 {
			lines = lines[:40]
		}
		m["h2_log"] = lines
		for k, v := range extra {
			m[k] = v
		}
		return m
	}
	var cur time.Time // deadline in force (write-driven)
	writes := 0
	lastWriteDNS := false
	lastReadFrom53 := false
	closes := 0
	for i, e := range evs {
		switch e.Kind {
		case "setReadDeadline":
			immediate := !e.DL.After(e.T.Add(2 * time.Millisecond))
			if immediate {
				fast := writes == 1 && lastWriteDNS && lastReadFrom53
				shut := !shutdownAt.IsZero() && !e.T.Before(shutdownAt)
				if !fast && !shut {
					c.Violation("C14/association-expired-immediately-without-cause", wit(map[string]any{"event": i, "writes_so_far": writes}))
					return false
				}
				if fast {
					c.Count("fast_closes_observed", 1)
				}
				continue
			}
			if e.DL.Before(cur) {
				c.Violation("C14/deadline-moved-earlier", wit(map[string]any{"event": i, "from": cur.Sub(e.T).String(), "to": e.DL.Sub(e.T).String()}))
				return false
			}
			// a deadline that moves later belongs to a client datagram being forwarded (the write to the
			// target follows it in the log); target traffic alone must not keep the association alive
			clientDriven := false
			for _, n := range evs[i+1:] {
				if n.Kind == "writeTo" {
					clientDriven = true
				}
				if n.Kind == "writeTo" || n.Kind == "setReadDeadline" {
					break
				}
			}
			if !clientDriven && !cur.IsZero() && e.DL.After(cur.Add(5*time.Millisecond)) {
				c.Violation("C14/deadline-extended-without-client-traffic", wit(map[string]any{"event": i, "deadline_moved_later_by": e.DL.Sub(cur).String(), "client_datagrams_forwarded_so_far": writes}))
				return false
			}
			cur = e.DL
		case "writeTo":
			if writes < len(sends) {
				need := natTimeout
				if sends[writes].DNS {
					need = dnsTimeout
				}
				if cur.Before(sends[writes].T.Add(need)) {
					c.Violation("C14/deadline-shorter-than-promised", wit(map[string]any{"client_datagram": writes, "dns": sends[writes].DNS, "deadline_after_send": cur.Sub(sends[writes].T).String(), "promised": need.String()}))
					return false
				}
				c.Count("deadlines_checked", 1)
			}
			lastWriteDNS = strings.HasSuffix(e.Addr, ":53")
			writes++
		case "readFrom":
			if e.Err == "" {
				lastReadFrom53 = strings.HasSuffix(e.Addr, ":53")
			}
		case "close":
			closes++
		}
	}
	if writes != len(sends) {
		c.Violation("C14/forwarded-datagram-count", wit(map[string]any{"client_sent": len(sends), "forwarded": writes}))
		return false
	}
	return true
}

// waitReclaimed waits until the socket has been closed and the removal reported.
func waitReclaimed(s *NatSock, a *UDPAssocRec, within time.Duration) (closed time.Time, nClose int, nRemoved int) {
	deadline := time.Now().Add(within)
	for {
		closed, nClose = s.Closed()
		nRemoved = len(a.Snap().Removed)
		if (nClose > 0 && nRemoved > 0) || time.Now().After(deadline) {
			// settle briefly to catch double reports
			time.Sleep(30 * time.Millisecond)
			closed, nClose = s.Closed()
			nRemoved = len(a.Snap().Removed)
			return
		}
		time.Sleep(2 * time.Millisecond)
	}
}

type c14World struct {
	*c03World
	dns53  *udpTarget // a "DNS server": port 53
	dns53a *udpTarget // the IPv4 one
	dns53b *udpTarget // an IPv6 one
	other  *udpTarget
	other2 *udpTarget
}

func newC14World(c *vk.Ctx, r *rand.Rand, natTimeout time.Duration) *c14World {
	keys := RandKeys(r, 3, nil, 0)
	w := &c14World{c03World: newC03World(c, r, keys, natTimeout)}
	var err error
	if w.dns53, err = startUDPTarget("dns53", net.IPv4(45, 68, byte(c.Batch), 53).To4(), 53); err != nil {
		fatalf("dns53 target: %v", err)
	}
	w.dns53a = w.dns53
	if w.dns53b, err = startUDPTarget("dns53-v6", net.ParseIP(fmt.Sprintf("2606:4700::68:%x", 0x5300+int(byte(c.Batch)))), 53); err != nil {
		fatalf("dns53 v6 target: %v", err)
	}
	w.other, w.other2 = w.targets[0], w.targets[2]
	return w
}

func (w *c14World) close() {
	w.dns53a.Stop()
	w.dns53b.Stop()
	w.c03World.close()
}

// sendAndWait sends one datagram and waits for it at the target; returns the stamp taken before sending.
func (w *c14World) sendAndWait(c *vk.Ctx, r *rand.Rand, cl *udpClient, t *udpTarget, replies int) (c14Send, *NatSock, bool) {
	id := nextID(c.Batch)
	st := c14Send{T: time.Now(), DNS: t.Addr.Port == 53}
	cl.Send(ssUDP(cl.Key, randBytes(r, cl.Key.Codec().C.SaltSize), t.addr(), mkUDPPayload(id, replies, 40, 30)), w.rig.Addr4())
	g, ok := t.waitID(id, udpB)
	if !ok {
		c.Violation("C14/valid-datagram-not-forwarded", map[string]any{"client": cl.Addr.String(), "target": t.Name})
		return st, nil, false
	}
	_, p, _ := net.SplitHostPort(g.From)
	var port int
	fmt.Sscan(p, &port)
	return st, w.rig.Nat.ByPort(port), true
}

// c14ScenSeq hands the scenarios out in turn, so that every batch covers all of them.
var c14ScenSeq atomic.Int64

// c14ReapSeq alternates the two variants of the reaping-window scenario (together with the batch number).
var c14ReapSeq atomic.Int64

func pickSeq(seq *atomic.Int64, list []string) string {
	return list[int(seq.Add(1)-1)%len(list)]
}

func c14Expiry(c *vk.Ctx, r *rand.Rand) bool {
	natTimeout := time.Duration(400+r.Intn(800)) * time.Millisecond
	w := newC14World(c, r, natTimeout)
	defer w.close()
	nClients := c.N(7, 14) // two phases per batch in the quick tier: 14 clients >= the 13 scenarios handed out in turn
	type cres struct{ ok bool }
	results := make(chan bool, nClients)
	for ci := 0; ci < nClients; ci++ {
		cr := c.SubRng("c14e", c.Batch*1000+ci+int(natTimeout/time.Millisecond))
		go func(ci int) {
			cl, err := newUDPClient(net.IPv4(198, 51, 100, byte(1+ci)).To4(), 0, w.keys[cr.Intn(len(w.keys))])
			if err != nil {
				results <- true
				return
			}
			defer cl.Close()
			// the DNS server of this client: the IPv4 or the IPv6 one
			dns53 := w.dns53a
			if cr.Intn(2) == 0 {
				dns53 = w.dns53b
			}
			scen := pickSeq(&c14ScenSeq, []string{"non-dns-burst-then-idle", "single-non-dns", "dns-then-non-dns", "fast-close", "no-fast-close/reply-from-other-port-first", "no-fast-close/two-queries", "no-fast-close/non-dns-first", "dns-reply-races-second-datagram", "first-write-fails", "reply-write-to-client-fails", "chatty-target-silent-client", "datagram-in-the-reaping-window", "empty-payload-opens-the-association"})
			c.Progress("C14 expiry client=%d scenario=%s timeout=%s", ci, scen, natTimeout)
			var sends []c14Send
			var sock *NatSock
			send := func(t *udpTarget, replies int) bool {
				st, s, ok := w.sendAndWait(c, cr, cl, t, replies)
				if !ok {
					return false
				}
				sends = append(sends, st)
				sock = s
				return true
			}
			ok := true
			expectFast := false
			// scenarios that withhold DNS answers get a DNS server of their own (another address, port 53),
			// so that concurrent clients do not release each other's answers
			myDNS := dns53
			if strings.HasPrefix(scen, "no-fast-close/two") || scen == "dns-reply-races-second-datagram" {
				t, err := startUDPTarget("dns53-private", net.IPv4(45, 68, byte(c.Batch), byte(100+ci)).To4(), 53)
				if err != nil {
					c.Inconclusive("private DNS target: " + err.Error())
					results <- true
					return
				}
				myDNS = t
				defer t.Stop()
			}
			switch scen {
			case "non-dns-burst-then-idle":
				for i := 0; i < 2+cr.Intn(4) && ok; i++ {
					ok = send(pick(cr, []*udpTarget{w.other, w.other2}), cr.Intn(2))
					time.Sleep(time.Duration(cr.Intn(int(natTimeout/2/time.Millisecond))) * time.Millisecond)
				}
			case "single-non-dns":
				ok = send(w.other, 0)
			case "datagram-in-the-reaping-window":
				// The deadline has passed, the reaper is slow (H2 holds the timeout back 250 ms), and the
				// client sends again in between. Whatever association carries that datagram: every socket
				// created for this client ends up closed once, every association removed once, and the
				// client is served afterwards.
				ok = send(w.other, 0)
				if !ok || sock == nil {
					break
				}
				sock.SetDelayTimeout(250 * time.Millisecond)
				variant := "reaper-slow-to-notice"
				if as := w.rig.Rec.ByClient(cl.Addr.String()); (c.Batch+int(c14ReapSeq.Add(1)))%2 == 0 && len(as) == 1 {
					// the other half of the window: the relay loop has ended, the removal report is in
					// progress (a slow metrics sink) and the entry is still in the table
					variant = "removal-report-in-progress"
					as[0].SetSlowRemove(300 * time.Millisecond)
					for dl := time.Now().Add(natTimeout + udpB); as[0].RemoveEntered() == 0 && time.Now().Before(dl); {
						time.Sleep(time.Millisecond)
					}
				} else {
					time.Sleep(time.Until(sends[0].T.Add(natTimeout + 60*time.Millisecond)))
				}
				c.Count("reaping_window_"+variant, 1)
				socks := []*NatSock{sock}
				_, s2, ok2 := w.sendAndWait(c, cr, cl, w.other, 0)
				if !ok2 {
					results <- false
					return
				}
				if s2 != nil && s2 != sock {
					socks = append(socks, s2)
				}
				time.Sleep(natTimeout + 400*time.Millisecond)
				_, s3, ok3 := w.sendAndWait(c, cr, cl, w.other2, 0)
				if !ok3 {
					results <- false
					return
				}
				if s3 != nil && s3 != sock && s3 != s2 {
					socks = append(socks, s3)
				}
				c.Eval("expiry|" + scen)
				deadline := time.Now().Add(natTimeout + udpB)
				for _, sk := range socks {
					for {
						if _, n := sk.Closed(); n > 0 || time.Now().After(deadline) {
							break
						}
						time.Sleep(2 * time.Millisecond)
					}
					if _, n := sk.Closed(); n != 1 {
						c.Violation("C14/expired-association-not-reclaimed-exactly-once", map[string]any{"scenario": scen, "socket": sk.Local, "socket_closes": n, "sockets_created_for_this_client": len(socks), "history": "datagram, silence past the deadline, datagram while the expired association was not yet removed, silence, datagram"})
						results <- false
						return
					}
				}
				for _, a := range w.rig.Rec.ByClient(cl.Addr.String()) {
					for len(a.Snap().Removed) == 0 && time.Now().Before(deadline) {
						time.Sleep(2 * time.Millisecond)
					}
					if n := len(a.Snap().Removed); n != 1 {
						c.Violation("C14/removal-not-reported-exactly-once", map[string]any{"scenario": scen, "removals": n, "associations_of_this_client": len(w.rig.Rec.ByClient(cl.Addr.String()))})
						results <- false
						return
					}
				}
				c.Count("reaping_window_scenarios", 1)
				results <- true
				return
			case "empty-payload-opens-the-association":
				// the association is opened by a datagram with an EMPTY payload (address header only): it is
				// a client datagram like any other - forwarded (zero bytes), deadline armed, reclaimed after it.
				// A target of its own tells this datagram (which can carry no id) from everybody else's.
				et, err := startUDPTarget("empty-sink", net.IPv4(45, 68, byte(c.Batch), byte(150+ci)).To4(), 7005)
				if err != nil {
					c.Inconclusive("empty-payload scenario: " + err.Error())
					results <- true
					return
				}
				defer et.Stop()
				st := c14Send{T: time.Now()}
				cl.Send(ssUDP(cl.Key, randBytes(cr, cl.Key.Codec().C.SaltSize), et.addr(), nil), w.rig.Addr4())
				if !et.WaitCount(1, udpB) {
					c.Violation("C14/valid-datagram-not-forwarded", map[string]any{"client": cl.Addr.String(), "payload": "empty (address header only), first datagram of the association"})
					results <- false
					return
				}
				if g := et.Snap()[0]; len(g.Data) == 0 {
					_, p, _ := net.SplitHostPort(g.From)
					var port int
					fmt.Sscan(p, &port)
					sock = w.rig.Nat.ByPort(port)
				}
				if sock == nil {
					c.Inconclusive("empty-payload scenario: the association's socket could not be identified")
					results <- true
					return
				}
				sends = append(sends, st)
				c.Count("associations_opened_by_an_empty_datagram", 1)
			case "chatty-target-silent-client":
				// the client says one thing and goes silent; the target (and a third party) keep sending
				// to the association's address for two timeouts. Only client datagrams keep an association.
				ok = send(w.other, 0)
				if ok && sock != nil {
					ua, _ := net.ResolveUDPAddr("udp", "203.0.113.77:"+sock.Local[strings.LastIndex(sock.Local, ":")+1:])
					for i := 0; i < 8; i++ {
						pick(cr, []*udpTarget{w.other, w.other2}).Send(replyPayload(nextID(c.Batch), 1, 20+cr.Intn(200)), ua)
						time.Sleep(natTimeout / 4)
					}
					c.Count("chatty_target_scenarios", 1)
				}
			case "dns-then-non-dns":
				ok = send(dns53, 0) && send(w.other, 0)
			case "fast-close":
				ok = send(dns53, 1) // the DNS server answers at once from port 53
				expectFast = true
			case "no-fast-close/reply-from-other-port-first":
				ok = send(dns53, 0)
				if ok && sock != nil {
					// an answer from a non-53 port arrives first, then the real answer: no fast close
					ua, _ := net.ResolveUDPAddr("udp", "203.0.113.77:"+strings.Split(sock.Local, ":")[len(strings.Split(sock.Local, ":"))-1])
					w.other.Send(replyPayload(nextID(c.Batch), 1, 30), ua)
					time.Sleep(20 * time.Millisecond)
					dns53.Send(replyPayload(nextID(c.Batch), 1, 30), ua)
				}
			case "no-fast-close/two-queries":
				myDNS.SetHold(true)
				ok = send(myDNS, 1) && send(myDNS, 1)
				myDNS.SetHold(false)
			case "no-fast-close/non-dns-first":
				ok = send(w.other, 0) && send(dns53, 1)
			case "dns-reply-races-second-datagram":
				// Forced interleaving (hook H2): the DNS answer is released exactly when the server has
				// started to handle the client's SECOND datagram (it is inside SetReadDeadline for it).
				// Two client datagrams exist by then, so this is not "only one DNS query": no fast close.
				myDNS.SetHold(true)
				ok = send(myDNS, 1)
				if ok && sock != nil {
					var once sync.Once
					var fired atomic.Bool
					sock.mu.Lock()
					sock.OnSetDeadline = func(call int, dl time.Time) {
						if dl.After(time.Now().Add(5 * time.Millisecond)) { // a write-driven deadline
							once.Do(func() {
								fired.Store(true)
								myDNS.SetHold(false)              // the answer arrives now ...
								time.Sleep(60 * time.Millisecond) // ... and is read while the write is in progress
							})
						}
					}
					sock.mu.Unlock()
					// the second datagram is a DNS query too: it extends the deadline (now + 17 s), so the
					// server does call SetReadDeadline while handling it
					ok = send(myDNS, 0)
					sock.mu.Lock()
					sock.OnSetDeadline = nil
					sock.mu.Unlock()
					if fired.Load() {
						c.Count("forced_dns_reply_during_second_write", 1)
					}
				}
				myDNS.SetHold(false)
			case "reply-write-to-client-fails":
				// one relayed answer cannot be written to the client (injected); the association lives on
				mine := cl.Addr.String()
				var failed atomic.Bool
				w.rig.Sock.SetFailWrite(func(dst net.Addr, n int) error {
					if dst.String() == mine && failed.CompareAndSwap(false, true) {
						return errors.New("injected: write to client fails")
					}
					return nil
				})
				ok = send(w.other, 1)
				time.Sleep(30 * time.Millisecond)
				if ok && failed.Load() {
					c.Count("reply_write_failures_injected", 1)
				}
			case "first-write-fails":
				// the very first forward of a new association fails in the socket write
				w.rig.Nat.mu.Lock()
				prevNew := w.rig.Nat.OnNew
				mine := cl.Addr.String()
				_ = mine
				w.rig.Nat.OnNew = func(s *NatSock) {
					n := 0
					s.FailWrite = func(dst net.Addr, l int) error {
						n++
						if n == 1 && strings.HasSuffix(dst.String(), ":7003") {
							return errors.New("injected: first write fails")
						}
						return nil
					}
					if prevNew != nil {
						prevNew(s)
					}
				}
				w.rig.Nat.mu.Unlock()
				before := len(w.rig.Nat.All())
				st := c14Send{T: time.Now()}
				dst := &net.UDPAddr{IP: w.other.Addr.IP, Port: 7003} // marks the injected case
				cl.Send(ssUDP(cl.Key, randBytes(cr, cl.Key.Codec().C.SaltSize), sscodecUDPAddr(dst), mkUDPPayload(nextID(c.Batch), 0, 0, 30)), w.rig.Addr4())
				// the association exists although nothing was forwarded: it must still expire and be reclaimed
				var fs *NatSock
				deadline := time.Now().Add(udpB)
				for fs == nil && time.Now().Before(deadline) {
					for _, s2 := range w.rig.Nat.All()[min(before, len(w.rig.Nat.All())):] {
						for _, e := range s2.Snap() {
							if e.Kind == "writeTo" && e.Err != "" {
								fs = s2
							}
						}
					}
					time.Sleep(time.Millisecond)
				}
				as := w.rig.Rec.ByClient(cl.Addr.String())
				c.Eval("expiry|" + scen)
				if fs == nil || len(as) != 1 {
					c.Inconclusive("first-write-fails: injected failure not observed")
					results <- true
					return
				}
				closed, nClose, nRem := waitReclaimed(fs, as[0], natTimeout+udpB)
				if nClose != 1 || nRem != 1 {
					c.Violation("C14/association-with-failed-first-write-never-reclaimed", map[string]any{"socket_closes": nClose, "removals_reported": nRem, "timeout": natTimeout.String()})
					results <- false
					return
				}
				if closed.Before(st.T.Add(natTimeout)) {
					c.Violation("C14/association-closed-before-timeout", map[string]any{"scenario": scen, "closed_after": closed.Sub(st.T).String()})
					results <- false
					return
				}
				c.Count("failed_first_write_reclaimed", 1)
				results <- true
				return
			}
			if !ok || sock == nil {
				results <- ok
				return
			}
			as := w.rig.Rec.ByClient(cl.Addr.String())
			if len(as) != 1 {
				c.Violation("C14/association-count", map[string]any{"scenario": scen, "associations": len(as)})
				results <- false
				return
			}
			anyDNS := false
			for _, s := range sends {
				anyDNS = anyDNS || s.DNS
			}
			if expectFast {
				closed, nClose, nRem := waitReclaimed(sock, as[0], udpB)
				c.Eval("expiry|" + scen)
				if nClose != 1 || nRem != 1 {
					var lines []string
					for _, e := range sock.Snap() {
						lines = append(lines, fmt.Sprintf("%s %s dl=%v %s %s", e.T.Format("05.000"), e.Kind, e.DL.Sub(e.T).Round(time.Millisecond), e.Addr, e.Err))
					}
					c.Violation("C14/fast-close-did-not-reclaim-association", map[string]any{"closes": nClose, "removals_reported": nRem, "scenario": scen, "h2_log": lines, "client_got": cl.Count(), "dns53_received": dns53.Count(), "dns53_replies_sent": len(dns53.SentTo), "dns53_hold": dns53.hold, "dns53_held": len(dns53.held)})
					results <- false
					return
				}
				if closed.Sub(sends[0].T) > udpB {
					c.Violation("C14/fast-close-not-prompt", map[string]any{"after": closed.Sub(sends[0].T).String()})
					results <- false
					return
				}
				c.Count("fast_close_reclaimed", 1)
				results <- checkAssocLog(c, scen, sock, sends, natTimeout, time.Time{})
				return
			}
			if anyDNS {
				// a DNS datagram keeps the association for 17 s: only the deadlines are judged here
				// (the association is torn down by the shutdown at the end of the phase)
				time.Sleep(natTimeout + 200*time.Millisecond)
				if _, n := sock.Closed(); n != 0 {
					c.Violation("C14/association-with-dns-traffic-closed-before-17s", map[string]any{"scenario": scen})
					results <- false
					return
				}
				c.Eval("expiry|" + scen + "|kept-17s")
				c.Count("dns_associations_kept", 1)
				results <- checkAssocLog(c, scen, sock, sends, natTimeout, time.Now())
				return
			}
			// liveness: a reply at 0.7 x timeout after the last client datagram is still relayed
			last := sends[len(sends)-1].T
			time.Sleep(time.Until(last.Add(natTimeout * 7 / 10)))
			if time.Since(last) < natTimeout*9/10 { // only if we were scheduled in time
				pid := nextID(c.Batch)
				port := sock.Local[strings.LastIndex(sock.Local, ":")+1:]
				ua, _ := net.ResolveUDPAddr("udp", "203.0.113.77:"+port)
				w.other.Send(replyPayload(pid, 1, 30), ua)
				if _, ok := cl.waitReply(cl.Key, pid|1<<56, natTimeout/5); ok {
					c.Count("liveness_probes_relayed", 1)
				} else if time.Since(last) < natTimeout {
					c.Violation("C14/association-unusable-before-deadline", map[string]any{"scenario": scen, "after_last_client_datagram": time.Since(last).String()})
					results <- false
					return
				}
			}
			closed, nClose, nRem := waitReclaimed(sock, as[0], natTimeout+udpB)
			c.Eval("expiry|" + scen)
			if nClose != 1 || nRem != 1 {
				c.Violation("C14/expired-association-not-reclaimed-exactly-once", map[string]any{"socket_closes": nClose, "removals_reported": nRem, "scenario": scen})
				results <- false
				return
			}
			if closed.Before(last.Add(natTimeout)) {
				c.Violation("C14/association-closed-before-timeout", map[string]any{"closed_after_last_datagram": closed.Sub(last).String(), "timeout": natTimeout.String()})
				results <- false
				return
			}
			c.Count("expired_reclaimed_exactly_once", 1)
			if !checkAssocLog(c, scen, sock, sends, natTimeout, time.Time{}) {
				results <- false
				return
			}
			// the next datagram creates a NEW association on a new socket
			_, sock2, ok := w.sendAndWait(c, cr, cl, w.other, 0)
			if ok && (sock2 == sock || len(w.rig.Rec.ByClient(cl.Addr.String())) != 2) {
				c.Violation("C14/no-new-association-after-expiry", map[string]any{"associations": len(w.rig.Rec.ByClient(cl.Addr.String()))})
				ok = false
			}
			results <- ok
		}(ci)
	}
	all := true
	for i := 0; i < nClients; i++ {
		all = <-results && all
	}
	if !all {
		return false
	}
	// shutdown with live associations: everything is torn down promptly and Handle returns
	live := 0
	for _, s := range w.rig.Nat.All() {
		if _, n := s.Closed(); n == 0 {
			live++
		}
	}
	shutdownAt := time.Now()
	if !w.rig.Close(udpB) {
		c.Violation("C14/handle-did-not-return-after-listener-closed", map[string]any{"live_associations": live})
		return false
	}
	deadline := time.Now().Add(udpB)
	for _, s := range w.rig.Nat.All() {
		for {
			if _, n := s.Closed(); n > 0 || time.Now().After(deadline) {
				break
			}
			time.Sleep(2 * time.Millisecond)
		}
		if _, n := s.Closed(); n != 1 {
			c.Violation("C14/outbound-socket-not-closed-at-shutdown", map[string]any{"socket": s.Local, "closes": n, "live_at_shutdown": live})
			return false
		}
	}
	for _, a := range w.rig.Rec.All() {
		time.Sleep(0)
		if n := len(a.Snap().Removed); n != 1 {
			// the report is made right before the close; give it the same bound
			time.Sleep(50 * time.Millisecond)
			if n = len(a.Snap().Removed); n != 1 {
				c.Violation("C14/removal-not-reported-exactly-once", map[string]any{"client": a.Client, "removals": n})
				return false
			}
		}
	}
	c.Count("shutdown_with_live_associations", 1)
	c.Count("associations_live_at_shutdown", int64(live))
	c.Eval(fmt.Sprintf("shutdown|live=%s", sizeBucket(live)))
	_ = shutdownAt
	return true
}

// c14LongTimeout: timeout longer than the DNS timeout; only deadlines are judged, the
// associations end by shutdown.
func c14LongTimeout(c *vk.Ctx, r *rand.Rand) bool {
	natTimeout := 30 * time.Second
	w := newC14World(c, r, natTimeout)
	defer w.close()
	type item struct {
		sock  *NatSock
		sends []c14Send
		scen  string
	}
	var items []item
	for ci := 0; ci < c.N(8, 24); ci++ {
		cl, err := newUDPClient(net.IPv4(198, 51, 100, byte(100+ci)).To4(), 0, w.keys[r.Intn(len(w.keys))])
		if err != nil {
			continue
		}
		defer cl.Close()
		n := 2 + r.Intn(5)
		var sends []c14Send
		var sock *NatSock
		scen := ""
		w.dns53.SetHold(true) // no answers: fast close is not under test here
		for i := 0; i < n; i++ {
			t := pick(r, []*udpTarget{w.other, w.dns53, w.dns53, w.other2})
			if t == w.dns53 {
				scen += "D"
			} else {
				scen += "n"
			}
			st, s, ok := w.sendAndWait(c, r, cl, t, 0)
			if !ok {
				return false
			}
			sends = append(sends, st)
			sock = s
			time.Sleep(time.Duration(r.Intn(30)) * time.Millisecond)
		}
		items = append(items, item{sock, sends, scen})
	}
	// one association's socket refuses the deadline call the shutdown makes (injected, once): the
	// shutdown still expires all the OTHER associations promptly
	var faulty *NatSock
	if len(items) >= 3 {
		faulty = items[r.Intn(len(items))].sock
		if faulty != nil {
			faulty.FailNextImmediateDeadline()
		}
	}
	shutdownAt := time.Now()
	w.rig.PC.Close()
	time.Sleep(100 * time.Millisecond)
	if faulty != nil {
		for _, it := range items {
			if it.sock == nil || it.sock == faulty {
				continue
			}
			for dl := time.Now().Add(udpB); time.Now().Before(dl); time.Sleep(2 * time.Millisecond) {
				if _, n := it.sock.Closed(); n > 0 {
					break
				}
			}
			if _, n := it.sock.Closed(); n != 1 {
				c.Violation("C14/outbound-socket-not-closed-at-shutdown", map[string]any{"socket": it.sock.Local, "closes": n, "associations": len(items), "history": "the deadline call failed on ANOTHER association's socket during the shutdown", "nat_timeout": natTimeout.String()})
				faulty.PacketConn.SetReadDeadline(time.Now())
				return false
			}
		}
		faulty.PacketConn.SetReadDeadline(time.Now()) // clean up: let the faulty one expire too
		c.Count("shutdowns_with_a_failing_deadline_call", 1)
	}
	for _, it := range items {
		c.Eval("long-timeout|" + it.scen)
		if it.sock == nil || !checkAssocLog(c, "long-timeout/"+it.scen, it.sock, it.sends, natTimeout, shutdownAt) {
			return false
		}
	}
	c.Count("long_timeout_sequences", int64(len(items)))
	return true
}

// c14RealDNS: one association whose only traffic is an unanswered DNS query really lives 17 s.
func c14RealDNS(c *vk.Ctx, r *rand.Rand) bool {
	natTimeout := 500 * time.Millisecond
	w := newC14World(c, r, natTimeout)
	defer w.close()
	cl, err := newUDPClient(net.IPv4(198, 51, 100, 99).To4(), 0, w.keys[0])
	if err != nil {
		return true
	}
	defer cl.Close()
	w.dns53.SetHold(true)
	st, sock, ok := w.sendAndWait(c, r, cl, w.dns53, 0)
	if !ok || sock == nil {
		return ok
	}
	as := w.rig.Rec.ByClient(cl.Addr.String())
	closed, nClose, nRem := waitReclaimed(sock, as[0], dnsTimeout+udpB)
	c.Eval("real-17s-dns")
	if nClose != 1 || nRem != 1 {
		c.Violation("C14/dns-association-not-reclaimed", map[string]any{"closes": nClose, "removals": nRem})
		return false
	}
	if closed.Before(st.T.Add(dnsTimeout)) {
		c.Violation("C14/dns-association-closed-before-17s", map[string]any{"closed_after": closed.Sub(st.T).String()})
		return false
	}
	c.Count("real_17s_dns_cases", 1)
	return checkAssocLog(c, "real-dns", sock, []c14Send{st}, natTimeout, time.Time{})
}

func c14Run(c *vk.Ctx) {
	lab.MustSetup(c.RunDir)
	r := c.Rng
	baseFD := len(lab.FDs(os.Getpid()))
	for i := 0; i < c.N(2, 5); i++ {
		if !c14Expiry(c, r) {
			return
		}
	}
	if !c14LongTimeout(c, r) {
		return
	}
	if c.Thorough() && c.Batch%4 == 0 {
		if !c14RealDNS(c, r) {
			return
		}
	}
	if c.Batch%2 == 0 {
		if !c14Process(c, r) {
			return
		}
	}
	// idle clients never accumulate sockets or goroutines
	if left := lab.WaitNoGoroutines(udpB, []string{"outline-ss-server/service."}, nil); len(left) > 0 {
		c.Violation("C14/goroutine-left-after-all-associations-ended", map[string]any{"count": len(left), "stack": left[0]})
		return
	}
	deadline := time.Now().Add(udpB)
	for len(lab.FDs(os.Getpid())) > baseFD+1 && time.Now().Before(deadline) {
		time.Sleep(20 * time.Millisecond)
	}
	if n := len(lab.FDs(os.Getpid())); n > baseFD+1 {
		c.Violation("C14/sockets-left-after-all-associations-ended", map[string]any{"baseline": baseFD, "now": n})
		return
	}
	c.Count("leak_audits_passed", 1)
}

func init() {
	vk.Register(&vk.Spec{
		ID:          "C14",
		Level:       "exploration",
		Rule:        "expiry phases (timeout 0.4..1.2 s, 6..14 concurrent clients, scenarios: non-DNS burst then idle, single datagram, DNS then non-DNS, fast close, three no-fast-close variants) judged on the H2 event log of the real outbound socket + client send stamps + metrics recorder, ending with a listener shutdown over live associations; long-timeout phase (30 s > 17 s) with random DNS/non-DNS sequences for deadline monotonicity; thorough adds a real 17 s DNS case; process phase: the real binary with -udptimeout 1.2/2.5 s under both configuration formats, outbound socket watched in /proc; final goroutine/fd audit; class = (phase, scenario or sequence shape)",
		Assumptions: []string{"'immediate' deadline = not later than 2 ms after the call", "B = 10 s bounded-progress restatement of 'torn down within bounded time'", "client datagrams racing the fast close are scripted not to occur"},
		Batches:     func(t string) int { return map[string]int{"quick": 4, "thorough": 16}[t] },
		Parallel:    func(t string) int { return 4 },
		Timeout:     func(t string) time.Duration { return 25 * time.Minute },
		Run: func(c *vk.Ctx) {
			for _, s := range []string{"deadlines_checked", "expired_reclaimed_exactly_once", "fast_close_reclaimed", "dns_associations_kept", "shutdown_with_live_associations", "long_timeout_sequences", "leak_audits_passed", "process_configured_timeout_honoured_services", "process_configured_timeout_honoured_legacy-keys", "chatty_target_scenarios", "reaping_window_scenarios", "associations_opened_by_an_empty_datagram", "shutdowns_with_a_failing_deadline_call", "reaping_window_reaper-slow-to-notice", "reaping_window_removal-report-in-progress"} {
				c.Require(s)
			}
			c14Run(c)
		},
	})
}
