package props

import (
	"bytes"
	"fmt"
	"math/rand"
	"net"
	"sync"
	"time"

	"verifharness/lab"
	"verifharness/vk"
)

// c03TwoListeners: ONE packet handler serves two listening sockets (this is how the server
// binary wires a `services:` entry with several udp listeners). Clients on both listeners
// send concurrently, datagrams of equal sizes; then one client socket talks to both listeners
// under two keys of the service.
//
// Oracles (all at the sockets): every datagram a target receives is one that was sent, intact,
// once; all datagrams of a client leave from one outbound address, no two clients share one;
// every reply reaches the client that asked, opens under its key, and comes from the listener
// the client talked to.
func c03TwoListeners(c *vk.Ctx, r *rand.Rand, prop string) bool {
	keys := RandKeys(r, 4, nil, 0)
	rig := StartUDPRig(keys, UDPRigOpts{NatTimeout: 30 * time.Second, Listeners: 2})
	defer rig.Close(5 * time.Second)
	b := byte(c.Batch)
	var targets []*udpTarget
	for i := 0; i < 2; i++ {
		t, err := startUDPTarget(fmt.Sprintf("m%d", i), net.IPv4(45, 66, b, byte(31+i)).To4(), 7001)
		if err != nil {
			fatalf("target: %v", err)
		}
		defer t.Stop()
		targets = append(targets, t)
	}
	const nClients = 8
	perClient := c.N(120, 400)
	size := 60 + r.Intn(200) // the same size for everybody
	type sentRec struct {
		client int
		target int
	}
	var smu sync.Mutex
	sent := map[uint64]sentRec{}
	clients := make([]*udpClient, nClients)
	for i := range clients {
		cl, err := newUDPClient(net.IPv4(198, 51, 103, byte(1+i)).To4(), 0, keys[i%len(keys)])
		if err != nil {
			fatalf("client: %v", err)
		}
		defer cl.Close()
		clients[i] = cl
	}
	c.Progress("%s two listeners one handler: %d clients x %d datagrams of %d bytes", prop, nClients, perClient, size)
	var wg sync.WaitGroup
	for i, cl := range clients {
		wg.Add(1)
		cr := c.SubRng("c03multi", i)
		go func(i int, cl *udpClient) {
			defer wg.Done()
			ln, ti := i%2, (i/2)%2
			for j := 0; j < perClient; j++ {
				id := nextID(c.Batch)
				smu.Lock()
				sent[id] = sentRec{i, ti}
				smu.Unlock()
				cl.Send(ssUDP(cl.Key, randBytes(cr, cl.Key.Codec().C.SaltSize), targets[ti].addr(), mkUDPPayload(id, 1, 24, size)), rig.AddrOf(ln))
				if j%8 == 7 {
					targets[ti].waitID(id, time.Second) // closed loop: nobody runs far ahead of the server
				}
			}
		}(i, cl)
	}
	wg.Wait()
	// drain: the last datagram of every client has arrived (or the bound passed)
	time.Sleep(100 * time.Millisecond)
	dropped := lab.UDPDrops(fmt.Sprintf("0.0.0.0:%d", rig.Port)) + lab.UDPDrops(fmt.Sprintf("0.0.0.0:%d", rig.ExtraPorts[0]))
	// --- what the targets saw ---
	seen := map[uint64]int{}
	portOwner := map[string]int{}
	clientPort := map[int]string{}
	for ti, t := range targets {
		for _, g := range t.Snap() {
			id, ok := udpPayloadID(g.Data)
			sr, known := sent[id]
			if !ok || !known || sr.target != ti || !bytes.Equal(g.Data, mkUDPPayload(id, 1, 24, size)) {
				c.Violation(prop+"/forwarded-payload-differs", map[string]any{"phase": "one handler serving two listeners, concurrent clients", "target": t.Name, "datagram_len": len(g.Data), "id_known": known, "right_target": known && sr.target == ti})
				return false
			}
			seen[id]++
			_, port, _ := net.SplitHostPort(g.From)
			if prev, ok := portOwner[port]; ok && prev != sr.client {
				c.Violation(prop+"/two-clients-share-an-outbound-address", map[string]any{"phase": "one handler serving two listeners", "outbound_port": port, "clients": []string{clients[prev].Addr.String(), clients[sr.client].Addr.String()}})
				return false
			}
			portOwner[port] = sr.client
			if prev, ok := clientPort[sr.client]; ok && prev != port {
				c.Violation(prop+"/one-client-several-outbound-addresses-in-one-association", map[string]any{"phase": "one handler serving two listeners", "client": clients[sr.client].Addr.String(), "outbound": []string{prev, port}})
				return false
			}
			clientPort[sr.client] = port
		}
	}
	missing := 0
	for id := range sent {
		switch seen[id] {
		case 0:
			missing++
		case 1:
		default:
			c.Violation(prop+"/datagram-forwarded-more-than-once", map[string]any{"phase": "one handler serving two listeners", "times": seen[id]})
			return false
		}
	}
	if missing > 0 {
		if dropped > 0 {
			c.Inconclusive(fmt.Sprintf("two-listener phase: %d datagrams missing, the kernel dropped %d at the listening sockets", missing, dropped))
			return true
		}
		c.Violation(prop+"/valid-datagram-not-forwarded", map[string]any{"phase": "one handler serving two listeners, concurrent clients", "missing": missing, "sent": len(sent), "kernel_drops_at_listeners": dropped})
		return false
	}
	// --- what the clients got back ---
	for i, cl := range clients {
		want := rig.AddrOf(i % 2).Port
		deadline := time.Now().Add(udpB)
		for cl.Count() < perClient && time.Now().Before(deadline) {
			time.Sleep(2 * time.Millisecond)
		}
		got := 0
		for _, g := range cl.Snap() {
			d, err := decodeReply(cl.Key, g.Data)
			if err != nil || len(d.Payload) < 8 {
				c.Violation(prop+"/reply-not-relayed-under-association-key", map[string]any{"phase": "one handler serving two listeners", "client": cl.Addr.String(), "opens_under_own_key": err == nil})
				return false
			}
			rid := u64(d.Payload[:8])
			sr, known := sent[rid&^(0xff<<56)]
			if !known || sr.client != i || !bytes.Equal(d.Payload, replyPayload(rid&^(0xff<<56), 1, 24)) {
				c.Violation(prop+"/datagram-delivered-to-another-client", map[string]any{"phase": "one handler serving two listeners", "client": cl.Addr.String(), "reply_belongs_to_a_known_request": known})
				return false
			}
			if _, p, _ := net.SplitHostPort(g.From); p != fmt.Sprint(want) {
				c.Violation(prop+"/reply-sent-from-another-listener", map[string]any{"client": cl.Addr.String(), "client_talks_to_port": want, "reply_came_from": g.From})
				return false
			}
			got++
		}
		if got < perClient {
			c.Count("two_listener_replies_missing", int64(perClient-got))
		}
	}
	c.Count("two_listener_datagrams_intact", int64(len(sent)))
	c.Eval("two-listeners-one-handler|concurrent-clients")
	// --- one client socket, two listeners, two keys of the service ---
	for rep := 0; rep < 3; rep++ {
		cl, err := newUDPClient(net.IPv4(198, 51, 103, byte(100+rep)).To4(), 0, keys[rep%len(keys)])
		if err != nil {
			continue
		}
		for ln := 0; ln < 2; ln++ {
			k := keys[(rep+ln)%len(keys)]
			id := nextID(c.Batch)
			cl.Send(ssUDP(k, randBytes(r, k.Codec().C.SaltSize), targets[0].addr(), mkUDPPayload(id, 1, 24, 50)), rig.AddrOf(ln))
			if _, ok := targets[0].waitID(id, udpB); !ok {
				c.Violation(prop+"/valid-datagram-not-forwarded", map[string]any{"phase": "one client socket talking to two listeners of one service", "listener": ln, "key": k, "key_used_on_the_other_listener": keys[rep%len(keys)]})
				cl.Close()
				return false
			}
			d, ok := cl.waitReply(k, id|1<<56, udpB)
			if !ok || !bytes.Equal(d.Payload, replyPayload(id, 1, 24)) {
				c.Violation(prop+"/reply-not-relayed-under-association-key", map[string]any{"phase": "one client socket talking to two listeners of one service", "listener": ln})
				cl.Close()
				return false
			}
		}
		for _, g := range cl.Snap() {
			_, p, _ := net.SplitHostPort(g.From)
			if p != fmt.Sprint(rig.AddrOf(0).Port) && p != fmt.Sprint(rig.AddrOf(1).Port) {
				c.Violation(prop+"/reply-sent-from-another-listener", map[string]any{"reply_came_from": g.From})
				cl.Close()
				return false
			}
		}
		froms := map[string]bool{}
		for _, g := range cl.Snap() {
			froms[g.From] = true
		}
		if len(froms) != 2 {
			c.Violation(prop+"/reply-sent-from-another-listener", map[string]any{"phase": "one client socket talking to two listeners", "replies_came_from": vk.SortedKeys(froms)})
			cl.Close()
			return false
		}
		cl.Close()
		c.Count("one_socket_two_listeners_checked", 1)
		c.Eval("two-listeners-one-handler|one-client-socket-two-keys")
	}
	// --- one of the two listeners goes away (a reload that drops one port of the service): the
	// associations of the OTHER listener are not touched ---
	{
		k := keys[0]
		cl, err := newUDPClient(net.IPv4(198, 51, 103, 150).To4(), 0, k)
		if err == nil {
			id := nextID(c.Batch)
			cl.Send(ssUDP(k, randBytes(r, k.Codec().C.SaltSize), targets[0].addr(), mkUDPPayload(id, 0, 0, 40)), rig.AddrOf(0))
			g1, ok := targets[0].waitID(id, udpB)
			if ok {
				rig.ExtraPC[0].Close() // the second listener; its Handle loop returns and expires ITS associations
				time.Sleep(150 * time.Millisecond)
				pid := nextID(c.Batch)
				_, sp, _ := net.SplitHostPort(g1.From)
				ua, _ := net.ResolveUDPAddr("udp", "203.0.113.77:"+sp)
				targets[0].Send(replyPayload(pid, 1, 40), ua)
				_, delivered := cl.waitReply(k, pid|1<<56, udpB)
				id2 := nextID(c.Batch)
				cl.Send(ssUDP(k, randBytes(r, k.Codec().C.SaltSize), targets[0].addr(), mkUDPPayload(id2, 0, 0, 40)), rig.AddrOf(0))
				g2, ok2 := targets[0].waitID(id2, udpB)
				c.Eval("two-listeners-one-handler|one-listener-closed")
				if !delivered || !ok2 || g2.From != g1.From {
					c.Violation(prop+"/association-of-one-listener-ended-when-another-listener-closed", map[string]any{"reply_delivered_after_the_other_listener_closed": delivered, "next_datagram_forwarded": ok2, "outbound_before": g1.From, "outbound_after": g2.From, "nat_timeout": "30s"})
					cl.Close()
					return false
				}
				c.Count("associations_surviving_the_close_of_another_listener", 1)
			}
			cl.Close()
		}
	}
	return true
}
