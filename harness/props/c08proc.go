package props

import (
	"fmt"
	"io"
	"net"
	"sync/atomic"
	"time"

	"verifharness/sscodec"
	"verifharness/vk"
)

// c08Process: what one server process issued, another process with the same keys recognises
// (a restart, a second instance behind the same address): a recording of real server output
// taken from the first process is reflected to the second one.
func c08Process(c *vk.Ctx) bool {
	r := c.Rng
	hub := StartTargetHub(0)
	defer hub.Close()
	port := 12500 + c.Batch*10
	var keys []KeySpec
	for i, cn := range []string{"chacha20-ietf-poly1305", "aes-256-gcm", "aes-192-gcm"} {
		keys = append(keys, KeySpec{ID: fmt.Sprintf("p%d", i), Cipher: cn, Secret: randSecret(r)})
	}
	cf := ConfSpec{Services: []SvcSpec{{Listeners: []LnSpec{{"tcp", fmt.Sprintf("203.0.113.85:%d", port)}}, Keys: keys}}}
	addr := fmt.Sprintf("203.0.113.85:%d", port)
	type rec struct {
		k   KeySpec
		raw []byte
	}
	var recs []rec
	sink := net.IPv4(45, 82, byte(c.Batch), 250)
	var sinkHits atomic.Int64
	hub.On(sink.String(), func(tc *TargetConn) { sinkHits.Add(1); tc.Close() })
	for _, history := range []int{0, 500} {
		srv, err := StartServer(c.RunDir, cf, ServerOpts{ReplayHistory: history})
		if err != nil {
			c.Violation("C08/process/server-does-not-start", err.Error())
			if srv != nil {
				srv.Stop()
			}
			return false
		}
		// reflect what the PREVIOUS process issued
		for _, rc := range recs {
			for _, form := range []string{"verbatim", "extended"} {
				in := rc.raw
				if form == "extended" {
					in = append(append([]byte(nil), rc.raw...), randBytes(r, 40)...)
				}
				cn, err := net.DialTimeout("tcp", addr, 5*time.Second)
				if err != nil {
					continue
				}
				cn.Write(in)
				cn.(*net.TCPConn).CloseWrite()
				cn.SetReadDeadline(time.Now().Add(c06B))
				out, _ := io.ReadAll(cn)
				cn.Close()
				c.Eval(fmt.Sprintf("process|reflect-across-restart|%s|%s|history=%d", rc.k.Cipher, form, history))
				if len(out) != 0 {
					c.Violation("C08/process/reflection-answered", map[string]any{"cipher": rc.k.Cipher, "form": form, "bytes": len(out)})
					srv.Stop()
					return false
				}
			}
		}
		if len(recs) > 0 {
			var refused, others float64
			for dl := time.Now().Add(10 * time.Second); time.Now().Before(dl); time.Sleep(50 * time.Millisecond) {
				m, err := srv.Metrics()
				if err != nil {
					continue
				}
				refused = metricSum(m, "shadowsocks_tcp_connections_closed", map[string]string{"status": "ERR_REPLAY_SERVER"})
				others = metricSum(m, "shadowsocks_tcp_connections_closed", nil) - refused
				if int(refused+others) >= 2*len(recs) {
					break
				}
			}
			if int(refused) != 2*len(recs) || sinkHits.Load() != 0 {
				c.Violation("C08/reflected-server-salt-not-refused", map[string]any{"phase": "recorded from one server process, reflected to the next one (same keys)", "reflections": 2 * len(recs), "refused_as_server_replay": refused, "closed_with_another_status": others, "sink_connections": sinkHits.Load(), "replay_history": history})
				srv.Stop()
				return false
			}
			c.Count("reflections_across_a_restart_refused", int64(refused))
		}
		// record fresh output of THIS process for the next one
		recs = nil
		for _, k := range keys {
			caseN := nextID(c.Batch)
			ip := caseIP4(caseN & 0xffffff)
			hub.On(ip.String(), func(tc *TargetConn) {
				buf := make([]byte, 64)
				tc.SetReadDeadline(time.Now().Add(c06B))
				tc.Read(buf)
				tc.Write(append(sscodec.AddrIP(sink, hub.Port, false), []byte("GET / as seen from a reflection")...))
				tc.Close()
			})
			cl, err := DialSS(addr, nil, k, randBytes(r, k.Codec().C.SaltSize))
			if err != nil {
				continue
			}
			cl.WriteRaw(cl.Enc.Encode(append(sscodec.AddrIP(ip, hub.Port, false), 'x'), nil))
			cl.Conn.SetReadDeadline(time.Now().Add(c06B))
			raw, _ := io.ReadAll(cl.Conn)
			cl.Conn.Close()
			hub.Off(ip.String())
			if len(raw) > 50 {
				recs = append(recs, rec{k, raw})
			}
		}
		srv.Stop()
	}
	return true
}
