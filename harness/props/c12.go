package props

import (
	"bytes"
	"errors"
	"fmt"
	"io"
	"math/rand"
	"net"
	"os"
	"sync"
	"sync/atomic"
	"syscall"
	"time"

	"github.com/Jigsaw-Code/outline-sdk/transport"
	"github.com/Jigsaw-Code/outline-ss-server/service"

	"verifharness/lab"
	"verifharness/vk"
)

// C12: shared listeners deliver each connection or datagram exactly once, close cleanly and
// release the socket.
//
// History-based oracle: every accept/read call is recorded with call and return stamps from
// one monotonic clock, every connection/datagram carries a unique id.
//   - an id is delivered at most once;
//   - a call that STARTED after its handle's Close returned must fail with net.ErrClosed;
//   - calls pending at Close return net.ErrClosed within B;
//   - while an anchor handle keeps accepting, every id is delivered within B;
//   - after the last close: the address can be bound again, no goroutine with a
//     listeners.go frame remains, every client was served or saw EOF/RST within B.

const c12B = 10 * time.Second

type delivery struct {
	Handle int
	ID     uint64
	Call   int64
	Ret    int64
}

type c12Handle struct {
	idx       int
	sl        service.StreamListener
	pc        net.PacketConn
	closeRet  atomic.Int64 // mono() when Close returned; 0 = open
	closeCall atomic.Int64
	loopDone  chan struct{}
}

type c12Hist struct {
	mu         sync.Mutex
	deliveries []delivery
	lateOK     []string // calls started after Close returned that did not fail with ErrClosed
	badErrs    []string
}

func (h *c12Hist) add(d delivery) {
	h.mu.Lock()
	h.deliveries = append(h.deliveries, d)
	h.mu.Unlock()
}

var portCounter atomic.Int64

// freePort hands out listening ports below the lab's ephemeral range (20000-60999), so that
// no client socket of the harness can ever occupy an address a check wants to (re)bind.
func freePort() int {
	return 1100 + int(portCounter.Add(1)%8000)
}

// streamLoop accepts on a handle until it fails; each connection carries its id in 8 bytes.
func (hd *c12Handle) streamLoop(hist *c12Hist, served func(uint64)) {
	defer close(hd.loopDone)
	for {
		closedBefore := hd.closeRet.Load()
		call := mono()
		conn, err := hd.sl.AcceptStream()
		ret := mono()
		if err != nil {
			if !errors.Is(err, net.ErrClosed) {
				hist.mu.Lock()
				hist.badErrs = append(hist.badErrs, fmt.Sprintf("handle %d AcceptStream error %v", hd.idx, err))
				hist.mu.Unlock()
				continue
			}
			return
		}
		if closedBefore != 0 && call > closedBefore {
			hist.mu.Lock()
			hist.lateOK = append(hist.lateOK, fmt.Sprintf("handle %d: AcceptStream called at %d after Close returned at %d delivered a connection", hd.idx, call, closedBefore))
			hist.mu.Unlock()
		}
		go func(conn transport.StreamConn) {
			defer conn.Close()
			var b [8]byte
			conn.SetReadDeadline(time.Now().Add(c12B))
			if _, err := io.ReadFull(conn, b[:]); err != nil {
				return
			}
			id := u64(b[:])
			hist.add(delivery{hd.idx, id, call, ret})
			served(id)
			conn.Write([]byte{'k'})
		}(conn)
	}
}

func (hd *c12Handle) packetLoop(hist *c12Hist, served func(uint64)) {
	defer close(hd.loopDone)
	buf := make([]byte, 2048)
	for {
		closedBefore := hd.closeRet.Load()
		call := mono()
		n, _, err := hd.pc.ReadFrom(buf)
		ret := mono()
		if err != nil {
			if !errors.Is(err, net.ErrClosed) {
				hist.mu.Lock()
				hist.badErrs = append(hist.badErrs, fmt.Sprintf("handle %d ReadFrom error %v", hd.idx, err))
				hist.mu.Unlock()
				if len(hist.badErrs) > 100 {
					return
				}
				continue
			}
			return
		}
		if closedBefore != 0 && call > closedBefore {
			hist.mu.Lock()
			hist.lateOK = append(hist.lateOK, fmt.Sprintf("handle %d: ReadFrom called at %d after Close returned at %d received a datagram", hd.idx, call, closedBefore))
			hist.mu.Unlock()
		}
		if n >= 8 {
			id := u64(buf[:8])
			hist.add(delivery{hd.idx, id, call, ret})
			served(id)
		}
	}
}

func (hd *c12Handle) close() {
	hd.closeCall.Store(mono())
	if hd.sl != nil {
		hd.sl.Close()
	} else {
		hd.pc.Close()
	}
	hd.closeRet.Store(mono())
}

// afterCloseProbe issues calls on a closed handle: all must fail with ErrClosed at once.
func (hd *c12Handle) afterCloseProbe(c *vk.Ctx, n int) bool {
	for i := 0; i < n; i++ {
		done := make(chan error, 1)
		go func() {
			var err error
			if hd.sl != nil {
				var cn transport.StreamConn
				cn, err = hd.sl.AcceptStream()
				if cn != nil {
					cn.Close()
				}
			} else {
				_, _, err = hd.pc.ReadFrom(make([]byte, 64))
			}
			done <- err
		}()
		select {
		case err := <-done:
			if !errors.Is(err, net.ErrClosed) {
				c.Violation("C12/call-after-close-did-not-fail-with-ErrClosed", map[string]any{"handle": hd.idx, "err": fmt.Sprint(err), "packet": hd.pc != nil})
				return false
			}
		case <-time.After(c12B):
			c.Violation("C12/call-after-close-blocks", map[string]any{"handle": hd.idx, "packet": hd.pc != nil})
			return false
		}
	}
	return true
}

func c12Random(c *vk.Ctx, packet bool) bool {
	r := c.Rng
	kind := "stream"
	if packet {
		kind = "packet"
	}
	m := service.NewListenerManager()
	port := freePort()
	addr := fmt.Sprintf("127.0.0.1:%d", port)
	hist := &c12Hist{}
	var servedMu sync.Mutex
	servedCh := map[uint64]chan struct{}{}
	served := func(id uint64) {
		servedMu.Lock()
		ch := servedCh[id]
		servedMu.Unlock()
		if ch != nil {
			select {
			case ch <- struct{}{}:
			default:
			}
		}
	}
	var handles []*c12Handle
	acquire := func() *c12Handle {
		hd := &c12Handle{idx: len(handles), loopDone: make(chan struct{})}
		if packet {
			pc, err := m.ListenPacket(addr)
			if err != nil {
				c.Violation("C12/acquire-failed", map[string]any{"kind": kind, "err": err.Error(), "open_handles": len(handles)})
				return nil
			}
			hd.pc = pc
			go hd.packetLoop(hist, served)
		} else {
			sl, err := m.ListenStream(addr)
			if err != nil {
				c.Violation("C12/acquire-failed", map[string]any{"kind": kind, "err": err.Error()})
				return nil
			}
			hd.sl = sl
			go hd.streamLoop(hist, served)
		}
		handles = append(handles, hd)
		return hd
	}
	anchor := acquire()
	if anchor == nil {
		return false
	}
	var open []*c12Handle
	nIDs := c.N(150, 500)
	var clientWG sync.WaitGroup
	var clientFail atomic.Value
	var udpc *net.UDPConn
	if packet {
		udpc, _ = net.DialUDP("udp", nil, &net.UDPAddr{IP: net.IPv4(127, 0, 0, 1), Port: port})
		defer udpc.Close()
	}
	c.Progress("C12 random %s ids=%d", kind, nIDs)
	for i := 0; i < nIDs; i++ {
		// churn the other handles
		switch x := r.Intn(10); {
		case x < 3 && len(open) < 5:
			if hd := acquire(); hd != nil {
				open = append(open, hd)
			} else {
				return false
			}
		case x < 6 && len(open) > 0:
			j := r.Intn(len(open))
			hd := open[j]
			open = append(open[:j], open[j+1:]...)
			if r.Intn(2) == 0 {
				go func() { hd.close() }() // concurrently with the traffic below
				defer func(hd *c12Handle) {
					select {
					case <-hd.loopDone:
					case <-time.After(c12B):
					}
				}(hd)
			} else {
				hd.close()
				select {
				case <-hd.loopDone:
				case <-time.After(c12B):
					c.Violation("C12/pending-call-not-unblocked-by-close", map[string]any{"kind": kind, "handle": hd.idx})
					return false
				}
				if !hd.afterCloseProbe(c, 2) {
					return false
				}
				if hd.sl != nil && r.Intn(2) == 0 {
					// closing a stream handle again (explicit Close plus a deferred one) changes nothing for
					// the others. Not done for packet handles: their Close is documented "once, and only once".
					for k := 0; k <= r.Intn(3); k++ {
						hd.sl.Close()
					}
					c.Count("repeated_closes_of_a_closed_stream_handle", 1)
				}
			}
		}
		id := nextID(c.Batch)
		ch := make(chan struct{}, 4)
		servedMu.Lock()
		servedCh[id] = ch
		servedMu.Unlock()
		if packet {
			udpc.Write(append(putU64(id), byte(i)))
			select {
			case <-ch:
			case <-time.After(c12B):
				c.Violation("C12/datagram-lost-while-a-handle-keeps-reading", map[string]any{"id": id, "seq": i, "open_handles": len(open) + 1})
				return false
			}
		} else {
			clientWG.Add(1)
			go func(id uint64) {
				defer clientWG.Done()
				cn, err := net.DialTimeout("tcp", addr, c12B)
				if err != nil {
					clientFail.Store(fmt.Sprintf("dial: %v", err))
					return
				}
				defer cn.Close()
				cn.Write(putU64(id))
				cn.SetReadDeadline(time.Now().Add(c12B))
				var b [1]byte
				if _, err := io.ReadFull(cn, b[:]); err != nil || b[0] != 'k' {
					clientFail.Store(fmt.Sprintf("connection %d not served while a handle keeps accepting: %v", id, err))
				}
			}(id)
			if r.Intn(3) == 0 {
				select {
				case <-ch:
				case <-time.After(c12B):
				}
			}
		}
	}
	clientWG.Wait()
	if v := clientFail.Load(); v != nil {
		c.Violation("C12/connection-lost-while-a-handle-keeps-accepting", v)
		return false
	}
	// close everything, anchor last
	for _, hd := range open {
		hd.close()
	}
	anchor.close()
	for _, hd := range handles {
		select {
		case <-hd.loopDone:
		case <-time.After(c12B):
			c.Violation("C12/pending-call-not-unblocked-by-close", map[string]any{"kind": kind, "handle": hd.idx, "phase": "final"})
			return false
		}
	}
	// history checks
	hist.mu.Lock()
	defer hist.mu.Unlock()
	seen := map[uint64]int{}
	for _, d := range hist.deliveries {
		seen[d.ID]++
	}
	for id, n := range seen {
		if n > 1 {
			c.Violation("C12/delivered-more-than-once", map[string]any{"kind": kind, "id": id, "times": n})
			return false
		}
	}
	if len(hist.lateOK) > 0 {
		c.Violation("C12/delivery-through-closed-handle", map[string]any{"kind": kind, "cases": hist.lateOK[:min(3, len(hist.lateOK))]})
		return false
	}
	if len(hist.badErrs) > 0 {
		c.Violation("C12/unexpected-error-on-open-handle", map[string]any{"kind": kind, "cases": hist.badErrs[:min(3, len(hist.badErrs))]})
		return false
	}
	if len(seen) != nIDs {
		c.Violation("C12/ids-not-all-delivered", map[string]any{"kind": kind, "sent": nIDs, "delivered": len(seen)})
		return false
	}
	byHandle := map[int]int{}
	for _, d := range hist.deliveries {
		byHandle[d.Handle]++
	}
	c.Count(kind+"_ids_delivered_exactly_once", int64(len(seen)))
	c.Count(kind+"_handles_used", int64(len(handles)))
	c.Max("max_handles_sharing_deliveries", int64(len(byHandle)))
	return c12Released(c, kind, addr)
}

// c12PacketBurst: datagrams arriving back to back from two senders, several goroutines reading
// concurrently on ONE handle (plus a second handle with one reader). Every datagram is
// self-describing (id, sender, length, PRNG fill): each read returns exactly one datagram that
// was sent - its own length, its own bytes, its own source address - and every datagram is
// returned by exactly one read.
func c12PacketBurst(c *vk.Ctx) bool {
	m := service.NewListenerManager()
	port := freePort()
	addr := fmt.Sprintf("127.0.0.1:%d", port)
	h1, err := m.ListenPacket(addr)
	if err != nil {
		c.Inconclusive("burst listen: " + err.Error())
		return true
	}
	h2, _ := m.ListenPacket(addr)
	const nSenders = 2
	total := c.N(3000, 12000)
	var senders []*net.UDPConn
	for i := 0; i < nSenders; i++ {
		u, err := net.DialUDP("udp", nil, &net.UDPAddr{IP: net.IPv4(127, 0, 0, 1), Port: port})
		if err != nil {
			c.Inconclusive("burst dial: " + err.Error())
			return true
		}
		if rc, err := u.SyscallConn(); err == nil {
			rc.Control(func(fd uintptr) { syscall.SetsockoptInt(int(fd), syscall.SOL_SOCKET, 32, 16<<20) })
		}
		defer u.Close()
		senders = append(senders, u)
	}
	mk := func(id uint64, sender int, size int) []byte {
		b := make([]byte, size)
		copy(b, putU64(id))
		b[8], b[9], b[10] = byte(sender), byte(size>>8), byte(size)
		prngStream(id, 11, b[11:])
		return b
	}
	var mu sync.Mutex
	delivered := map[uint64]int{}
	var bad atomic.Value
	var nDelivered atomic.Int64
	reader := func(pc net.PacketConn, name string, wg *sync.WaitGroup) {
		defer wg.Done()
		buf := make([]byte, 2048)
		for {
			for i := range buf[:32] {
				buf[i] = 0xEE
			}
			n, from, err := pc.ReadFrom(buf)
			if err != nil {
				if !errors.Is(err, net.ErrClosed) {
					bad.CompareAndSwap(nil, fmt.Sprintf("%s: ReadFrom error %v", name, err))
				}
				return
			}
			if n < 11 {
				bad.CompareAndSwap(nil, fmt.Sprintf("%s: a read returned %d bytes; nothing shorter than 11 was sent", name, n))
				continue
			}
			id, sender, size := u64(buf[:8]), int(buf[8]), int(buf[9])<<8|int(buf[10])
			switch {
			case size != n:
				bad.CompareAndSwap(nil, fmt.Sprintf("%s: a read returned %d bytes of a datagram that was sent with %d", name, n, size))
			case sender >= nSenders || from.String() != senders[sender].LocalAddr().String():
				bad.CompareAndSwap(nil, fmt.Sprintf("%s: datagram of sender %d returned with source %v", name, sender, from))
			case !bytes.Equal(buf[:n], mk(id, sender, size)):
				bad.CompareAndSwap(nil, fmt.Sprintf("%s: datagram %x returned with altered content (first difference at %d of %d)", name, id, firstDiff(buf[:n], mk(id, sender, size)), n))
			}
			mu.Lock()
			delivered[id]++
			mu.Unlock()
			nDelivered.Add(1)
		}
	}
	var rwg sync.WaitGroup
	for i := 0; i < 4; i++ {
		rwg.Add(1)
		go reader(h1, fmt.Sprintf("handle 1 reader %d", i), &rwg)
	}
	rwg.Add(1)
	go reader(h2, "handle 2", &rwg)
	var swg sync.WaitGroup
	var sentN atomic.Int64
	sentIDs := make([][]uint64, nSenders)
	for si := range senders {
		swg.Add(1)
		sr := c.SubRng("c12burst", si)
		go func(si int) {
			defer swg.Done()
			for j := 0; j < total/nSenders && bad.Load() == nil; j++ {
				id := nextID(c.Batch)
				size := 11 + sr.Intn(1400)
				senders[si].Write(mk(id, si, size))
				sentIDs[si] = append(sentIDs[si], id)
				// closed loop with a window: back to back within the window, never far ahead of the readers
				// (the shared socket keeps the kernel's default receive buffer: the window stays well below it)
				if n := sentN.Add(1); j%8 == 7 {
					for dl := time.Now().Add(2 * time.Second); nDelivered.Load() < n-24 && time.Now().Before(dl); {
						time.Sleep(20 * time.Microsecond)
					}
				}
			}
		}(si)
	}
	c.Progress("C12 packet burst: %d datagrams, 2 senders, 4 readers on one handle + 1 on another", total)
	swg.Wait()
	for dl := time.Now().Add(3 * time.Second); nDelivered.Load() < sentN.Load() && time.Now().Before(dl); {
		time.Sleep(time.Millisecond)
	}
	drops := lab.UDPDrops(addr)
	h1.Close()
	h2.Close()
	done := make(chan struct{})
	go func() { rwg.Wait(); close(done) }()
	select {
	case <-done:
	case <-time.After(c12B):
		c.Violation("C12/pending-call-not-unblocked-by-close", map[string]any{"kind": "packet", "phase": "burst, several readers per handle"})
		return false
	}
	c.Eval("burst|packet|4-readers-on-one-handle")
	if v := bad.Load(); v != nil {
		c.Violation("C12/burst/read-returned-something-that-was-not-sent", map[string]any{"what": v, "datagrams_sent": sentN.Load()})
		return false
	}
	mu.Lock()
	defer mu.Unlock()
	missing := 0
	for _, ids := range sentIDs {
		for _, id := range ids {
			switch delivered[id] {
			case 0:
				missing++
			case 1:
			default:
				c.Violation("C12/delivered-more-than-once", map[string]any{"kind": "packet", "phase": "burst", "times": delivered[id]})
				return false
			}
		}
	}
	if len(delivered) > int(sentN.Load()) {
		c.Violation("C12/burst/read-returned-something-that-was-not-sent", map[string]any{"distinct_ids_delivered": len(delivered), "sent": sentN.Load()})
		return false
	}
	if missing > 0 {
		if drops > 0 {
			c.Inconclusive(fmt.Sprintf("burst: %d datagrams missing, %d dropped by the kernel at the socket", missing, drops))
		} else {
			c.Violation("C12/datagram-lost-while-a-handle-keeps-reading", map[string]any{"phase": "burst, several readers per handle", "missing": missing, "sent": sentN.Load(), "kernel_drops": drops})
			return false
		}
	}
	c.Count("burst_datagrams_each_returned_by_exactly_one_read", int64(len(delivered)))
	if !c12Released(c, "packet", addr) {
		return false
	}
	// the largest datagrams UDP can carry (65507 bytes over IPv4, 65527 over IPv6) through a shared
	// listener on the wildcard address: returned whole
	m = service.NewListenerManager()
	port = freePort()
	hb, err := m.ListenPacket(fmt.Sprintf("[::]:%d", port))
	if err != nil {
		c.Inconclusive("largest datagrams: " + err.Error())
		return true
	}
	hb2, _ := m.ListenPacket(fmt.Sprintf("[::]:%d", port))
	for _, tc := range []struct {
		network, dst string
		size         int
	}{{"udp4", fmt.Sprintf("127.0.0.1:%d", port), 65507}, {"udp6", fmt.Sprintf("[::1]:%d", port), 65507}, {"udp6", fmt.Sprintf("[::1]:%d", port), 65508}, {"udp6", fmt.Sprintf("[::1]:%d", port), 65527}} {
		u, err := net.Dial(tc.network, tc.dst)
		if err != nil {
			c.Note("largest datagrams: dial %s: %v", tc.dst, err)
			continue
		}
		id := nextID(c.Batch)
		want := mk(id, 0, tc.size)
		if _, err := u.Write(want); err != nil {
			c.Note("largest datagrams: cannot send %d bytes over %s: %v", tc.size, tc.network, err)
			u.Close()
			continue
		}
		res := make(chan []byte, 1)
		go func() {
			b := make([]byte, 70000) // as large as the server's own read buffers and beyond
			hb.SetReadDeadline(time.Now().Add(c12B))
			n, _, err := hb.ReadFrom(b)
			if err != nil {
				res <- nil
				return
			}
			res <- b[:n]
		}()
		got := <-res
		u.Close()
		c.Eval(fmt.Sprintf("largest|packet|%s|%d", tc.network, tc.size))
		if !bytes.Equal(got, want) {
			c.Violation("C12/burst/read-returned-something-that-was-not-sent", map[string]any{"what": fmt.Sprintf("a %d-byte datagram over %s came back with %d bytes (first difference at %d)", tc.size, tc.network, len(got), firstDiff(got, want))})
			hb.Close()
			hb2.Close()
			return false
		}
		c.Count("largest_datagrams_returned_whole", 1)
	}
	hb.Close()
	hb2.Close()
	return true
}

// c12Released: after the last close the socket is released and nothing keeps running.
func c12Released(c *vk.Ctx, kind, addr string) bool {
	var err error
	deadline := time.Now().Add(c12B)
	for {
		if kind == "packet" {
			var pc net.PacketConn
			pc, err = net.ListenPacket("udp", addr)
			if err == nil {
				pc.Close()
			}
		} else {
			var l net.Listener
			l, err = net.Listen("tcp", addr)
			if err == nil {
				l.Close()
			}
		}
		if err == nil || time.Now().After(deadline) {
			break
		}
		time.Sleep(10 * time.Millisecond)
	}
	if err != nil {
		c.Violation("C12/socket-not-released-after-last-close", map[string]any{"kind": kind, "addr": addr, "err": err.Error()})
		return false
	}
	if left := lab.WaitNoGoroutines(c12B, []string{"service/listeners.go"}, []string{"verifharness/props.(*c12Handle)"}); len(left) > 0 {
		c.Violation("C12/goroutine-left-after-last-close", map[string]any{"kind": kind, "count": len(left), "stack": left[0]})
		return false
	}
	c.Count("release_checks", 1)
	return true
}

// holdPoint installs a hook that parks the first goroutine reaching `point`.
func holdPoint(point string) (held chan struct{}, release func()) {
	held = make(chan struct{})
	rel := make(chan struct{})
	var once sync.Once
	service.VerifSetPointHook(func(name string) {
		if name == point {
			first := false
			once.Do(func() { first = true })
			if first {
				close(held)
				<-rel
			}
		}
	})
	var ronce sync.Once
	return held, func() { ronce.Do(func() { close(rel) }) }
}

// c12Forced drives the interleavings that random schedules rarely hit (hook H3).
func c12Forced(c *vk.Ctx) bool {
	r := c.Rng
	defer service.VerifSetPointHook(nil)
	for rep := 0; rep < c.N(12, 60); rep++ {
		// --- stream: connection held by the fan-out goroutine while handles close ---
		lastToo := rep%2 == 0
		m := service.NewListenerManager()
		port := freePort()
		addr := fmt.Sprintf("127.0.0.1:%d", port)
		h1, err := m.ListenStream(addr)
		if err != nil {
			c.Inconclusive("forced listen: " + err.Error())
			continue
		}
		h2, _ := m.ListenStream(addr)
		held, release := holdPoint("stream.fanout.accepted")
		cn, err := net.DialTimeout("tcp", addr, c12B)
		if err != nil {
			c.Inconclusive("forced dial: " + err.Error())
			release()
			continue
		}
		select {
		case <-held:
		case <-time.After(c12B):
			c.Inconclusive("forced: stream.fanout.accepted not reached")
			release()
			cn.Close()
			continue
		}
		// the connection is in the fan-out goroutine's hands, not yet offered
		h1.Close()
		got := make(chan transport.StreamConn, 1)
		if lastToo {
			h2.Close()
		} else {
			go func() {
				sc, _ := h2.AcceptStream()
				got <- sc
			}()
		}
		release()
		service.VerifSetPointHook(nil)
		if lastToo {
			// nobody can take it: it must be closed, not left hanging
			cn.SetReadDeadline(time.Now().Add(c12B))
			var b [1]byte
			_, rerr := cn.Read(b[:])
			if rerr == nil || isTimeout(rerr) {
				c.Violation("C12/forced/undeliverable-connection-left-hanging", map[string]any{"read_result": fmt.Sprint(rerr)})
				return false
			}
			cn.Close()
			if !c12Released(c, "stream", addr) {
				return false
			}
			c.Count("forced_stream_conn_in_flight_at_last_close", 1)
			c.Eval("forced|stream|conn-in-flight|last-close")
		} else {
			select {
			case sc := <-got:
				if sc == nil {
					c.Violation("C12/forced/connection-lost-when-other-handle-closed", "open handle got an error instead of the in-flight connection")
					return false
				}
				sc.Close()
			case <-time.After(c12B):
				c.Violation("C12/forced/connection-lost-when-other-handle-closed", "open handle never received the in-flight connection")
				return false
			}
			cn.Close()
			h2.Close()
			if !c12Released(c, "stream", addr) {
				return false
			}
			c.Count("forced_stream_conn_in_flight_at_other_close", 1)
			c.Eval("forced|stream|conn-in-flight|non-last-close")
		}

		// --- packet: read on a closed handle while a datagram is pending ---
		m = service.NewListenerManager()
		port = freePort()
		addr = fmt.Sprintf("127.0.0.1:%d", port)
		p1, err := m.ListenPacket(addr)
		if err != nil {
			c.Inconclusive("forced listen packet: " + err.Error())
			continue
		}
		p2, _ := m.ListenPacket(addr)
		u, _ := net.DialUDP("udp", nil, &net.UDPAddr{IP: net.IPv4(127, 0, 0, 1), Port: port})
		nPending := 1 + r.Intn(3)
		p1.Close()
		ids := map[uint64]bool{}
		for i := 0; i < nPending; i++ {
			id := nextID(c.Batch)
			ids[id] = true
			u.Write(putU64(id))
		}
		time.Sleep(5 * time.Millisecond) // let the fan-out goroutine pick the first one up
		stolen := 0
		for i := 0; i < 8; i++ {
			n, _, err := p1.ReadFrom(make([]byte, 64))
			if err == nil || n > 0 {
				stolen++
			} else if !errors.Is(err, net.ErrClosed) {
				c.Violation("C12/call-after-close-did-not-fail-with-ErrClosed", map[string]any{"err": err.Error(), "packet": true})
				return false
			}
		}
		if stolen > 0 {
			c.Violation("C12/forced/closed-handle-took-pending-datagram", map[string]any{"reads_on_closed_handle_that_succeeded": stolen, "pending": nPending})
			return false
		}
		// the open handle gets all of them
		buf := make([]byte, 64)
		for i := 0; i < nPending; i++ {
			p2.SetReadDeadline(time.Time{})
			res := make(chan uint64, 1)
			go func() {
				n, _, err := p2.ReadFrom(buf)
				if err != nil || n < 8 {
					res <- 0
					return
				}
				res <- u64(buf[:8])
			}()
			select {
			case id := <-res:
				if !ids[id] {
					c.Violation("C12/forced/pending-datagram-lost", map[string]any{"got": id})
					return false
				}
				delete(ids, id)
			case <-time.After(c12B):
				c.Violation("C12/forced/pending-datagram-lost", map[string]any{"missing": len(ids)})
				return false
			}
		}
		// pending read unblocked by close with ErrClosed
		done := make(chan error, 1)
		go func() {
			_, _, err := p2.ReadFrom(buf)
			done <- err
		}()
		time.Sleep(2 * time.Millisecond)
		p2.Close()
		select {
		case err := <-done:
			if !errors.Is(err, net.ErrClosed) {
				c.Violation("C12/pending-call-wrong-error-on-close", map[string]any{"err": fmt.Sprint(err)})
				return false
			}
		case <-time.After(c12B):
			c.Violation("C12/pending-call-not-unblocked-by-close", map[string]any{"kind": "packet", "phase": "forced"})
			return false
		}
		u.Close()
		if !c12Released(c, "packet", addr) {
			return false
		}
		// re-acquisition after full release works and delivers
		p3, err := m.ListenPacket(addr)
		if err != nil {
			c.Violation("C12/reacquire-after-release-failed", map[string]any{"err": err.Error()})
			return false
		}
		u, _ = net.DialUDP("udp", nil, &net.UDPAddr{IP: net.IPv4(127, 0, 0, 1), Port: port})
		id := nextID(c.Batch)
		u.Write(putU64(id))
		res := make(chan uint64, 1)
		go func() {
			n, _, err := p3.ReadFrom(buf)
			if err != nil || n < 8 {
				res <- 0
				return
			}
			res <- u64(buf[:8])
		}()
		select {
		case got := <-res:
			if got != id {
				c.Violation("C12/reacquired-listener-does-not-deliver", map[string]any{"got": got, "want": id})
				return false
			}
		case <-time.After(c12B):
			c.Violation("C12/reacquired-listener-does-not-deliver", "timeout")
			return false
		}
		u.Close()
		p3.Close()
		if !c12Released(c, "packet", addr) {
			return false
		}
		c.Count("forced_packet_pending_vs_closed_handle", 1)
		c.Eval(fmt.Sprintf("forced|packet|pending=%d|closed-handle-reads", nPending))

		// --- packet: the fan-out goroutine has TAKEN h1's read request (the datagram is h1's now) and
		// h1 closes before the answer is written: the datagram reaches h1's pending read, or it is
		// not consumed and reaches the open handle - it never vanishes ---
		{
			m = service.NewListenerManager()
			port = freePort()
			addr = fmt.Sprintf("127.0.0.1:%d", port)
			q1, err := m.ListenPacket(addr)
			if err == nil {
				q2, _ := m.ListenPacket(addr)
				held, release := holdPoint("packet.fanout.beforeRespond")
				type rres struct {
					id  uint64
					err error
				}
				r1 := make(chan rres, 1)
				go func() {
					b := make([]byte, 64)
					n, _, err := q1.ReadFrom(b)
					if err == nil && n >= 8 {
						r1 <- rres{u64(b[:8]), nil}
					} else {
						r1 <- rres{0, err}
					}
				}()
				time.Sleep(2 * time.Millisecond) // h1's read is offered (h2 is not reading yet)
				uu, _ := net.DialUDP("udp", nil, &net.UDPAddr{IP: net.IPv4(127, 0, 0, 1), Port: port})
				id := nextID(c.Batch)
				uu.Write(putU64(id))
				select {
				case <-held:
					closedCh := make(chan struct{})
					go func() { q1.Close(); close(closedCh) }()
					time.Sleep(3 * time.Millisecond) // the close is under way (or done) while the answer is pending
					release()
					service.VerifSetPointHook(nil)
					var got uint64
					select {
					case rr := <-r1:
						if rr.err == nil {
							got = rr.id
						} else if !errors.Is(rr.err, net.ErrClosed) {
							c.Violation("C12/pending-call-wrong-error-on-close", map[string]any{"err": rr.err.Error(), "kind": "packet"})
							return false
						}
					case <-time.After(c12B):
						c.Violation("C12/pending-call-not-unblocked-by-close", map[string]any{"kind": "packet", "phase": "forced read-request-taken vs close"})
						return false
					}
					if got == 0 {
						// h1 reported "closed": then the datagram must still be there for the open handle
						r2 := make(chan uint64, 1)
						go func() {
							b := make([]byte, 64)
							q2.SetReadDeadline(time.Now().Add(c12B))
							if n, _, err := q2.ReadFrom(b); err == nil && n >= 8 {
								r2 <- u64(b[:8])
							} else {
								r2 <- 0
							}
						}()
						select {
						case got = <-r2:
						case <-time.After(c12B + time.Second):
						}
					}
					if got != id {
						c.Violation("C12/forced/datagram-lost-when-reading-handle-closed", map[string]any{"history": "h1.ReadFrom pending, datagram arrives, fan-out takes h1's request, h1.Close, fan-out answers", "h1_result": "net.ErrClosed", "open_handle_received": got})
						return false
					}
					<-closedCh
					c.Count("forced_packet_request_taken_vs_close", 1)
					c.Eval("forced|packet|request-taken|reader-closes")
				case <-time.After(c12B):
					release()
					c.Inconclusive("forced: packet.fanout.beforeRespond not reached")
				}
				service.VerifSetPointHook(nil)
				uu.Close()
				q2.Close()
				if !c12Released(c, "packet", addr) {
					return false
				}
			}
		}

		// --- an accept that has fetched the handle's channel but not yet started to wait, while the
		// last handle closes and the shared socket goes away: it must end with ErrClosed ---
		for sub := 0; sub < 3; sub++ {
			m = service.NewListenerManager()
			addr = fmt.Sprintf("127.0.0.1:%d", freePort())
			hs, err := m.ListenStream(addr)
			if err != nil {
				c.Inconclusive("forced accept-vs-close listen: " + err.Error())
				break
			}
			held, release := holdPoint("stream.accept.beforeSelect")
			type ares struct {
				conn transport.StreamConn
				err  error
			}
			resCh := make(chan ares, 1)
			go func() {
				cn, err := hs.AcceptStream()
				resCh <- ares{cn, err}
			}()
			select {
			case <-held:
			case <-time.After(c12B):
				c.Inconclusive("forced: stream.accept.beforeSelect not reached")
				release()
				hs.Close()
				continue
			}
			hs.Close()
			time.Sleep(3 * time.Millisecond) // the fan-out goroutine notices the closed socket
			release()
			service.VerifSetPointHook(nil)
			select {
			case ar := <-resCh:
				if ar.err == nil {
					c.Violation("C12/forced/accept-racing-last-close-returned-no-error", map[string]any{"conn_is_nil": ar.conn == nil})
					return false
				}
				if !errors.Is(ar.err, net.ErrClosed) {
					c.Violation("C12/pending-call-wrong-error-on-close", map[string]any{"err": ar.err.Error()})
					return false
				}
			case <-time.After(c12B):
				c.Violation("C12/pending-call-not-unblocked-by-close", map[string]any{"kind": "stream", "phase": "forced accept-vs-close"})
				return false
			}
			c.Count("forced_accept_racing_last_close", 1)
			c.Eval("forced|stream|accept-before-select|last-close")
		}

		// --- two handles: an accept on h1 is parked after fetching the channel, a connection arrives,
		// h1 closes: the connection reaches h1's pending accept or h2 - it is never dropped ---
		{
			m = service.NewListenerManager()
			addr = fmt.Sprintf("127.0.0.1:%d", freePort())
			ha, err := m.ListenStream(addr)
			if err == nil {
				hb, _ := m.ListenStream(addr)
				held, release := holdPoint("stream.accept.beforeSelect")
				type ares struct {
					conn transport.StreamConn
					err  error
				}
				ra := make(chan ares, 1)
				go func() {
					cn, err := ha.AcceptStream()
					ra <- ares{cn, err}
				}()
				select {
				case <-held:
					cn, derr := net.DialTimeout("tcp", addr, c12B)
					time.Sleep(2 * time.Millisecond) // the fan-out goroutine is offering the connection now
					ha.Close()
					release()
					service.VerifSetPointHook(nil)
					var got transport.StreamConn
					select {
					case ar := <-ra:
						if ar.err == nil && ar.conn != nil {
							got = ar.conn
						} else if ar.err != nil && !errors.Is(ar.err, net.ErrClosed) {
							c.Violation("C12/pending-call-wrong-error-on-close", map[string]any{"err": ar.err.Error()})
							return false
						} else if ar.err == nil {
							c.Violation("C12/forced/accept-racing-last-close-returned-no-error", map[string]any{"handles": 2})
							return false
						}
					case <-time.After(c12B):
						c.Violation("C12/pending-call-not-unblocked-by-close", map[string]any{"kind": "stream", "phase": "forced two handles"})
						return false
					}
					if got == nil {
						// h1 reported ErrClosed: then the open handle h2 gets the connection
						rb := make(chan transport.StreamConn, 1)
						go func() { cn, _ := hb.AcceptStream(); rb <- cn }()
						select {
						case got = <-rb:
						case <-time.After(c12B):
						}
					}
					if got == nil && derr == nil {
						c.Violation("C12/forced/connection-dropped-when-accepting-handle-closed", "the connection reached neither the closing handle's pending accept nor the open handle")
						return false
					}
					if got != nil {
						got.Close()
					}
					if cn != nil {
						cn.Close()
					}
					c.Count("forced_two_handles_accept_vs_close", 1)
					c.Eval("forced|stream|accept-before-select|other-handle-open")
				case <-time.After(c12B):
					release()
				}
				service.VerifSetPointHook(nil)
				hb.Close()
				if !c12Released(c, "stream", addr) {
					return false
				}
			}
		}

		// --- re-acquisition while the closer of the last handle has released the socket but not yet
		// told the manager: the new handle works on a new socket, undisturbed by the old one ---
		for _, kind := range []string{"stream", "packet"} {
			m = service.NewListenerManager()
			port = freePort()
			addr = fmt.Sprintf("127.0.0.1:%d", port)
			var first io.Closer
			if kind == "stream" {
				first, err = m.ListenStream(addr)
			} else {
				first, err = m.ListenPacket(addr)
			}
			if err != nil {
				c.Inconclusive("forced reacquire listen: " + err.Error())
				continue
			}
			held, release := holdPoint(kind + ".lastClose.beforeCallback")
			closed := make(chan struct{})
			go func() { first.Close(); close(closed) }()
			select {
			case <-held:
			case <-time.After(c12B):
				c.Inconclusive("forced: lastClose.beforeCallback not reached")
				release()
				continue
			}
			nItems := 5 + r.Intn(10)
			got := make(chan uint64, 64)
			errCh := make(chan error, 4)
			var second io.Closer
			if kind == "stream" {
				sl, err := m.ListenStream(addr)
				if err != nil {
					c.Violation("C12/forced/reacquire-during-last-close-failed", map[string]any{"kind": kind, "err": err.Error()})
					release()
					return false
				}
				second = sl
				go func() {
					for {
						cn, err := sl.AcceptStream()
						if err != nil {
							errCh <- err
							return
						}
						go func() {
							defer cn.Close()
							var b [8]byte
							cn.SetReadDeadline(time.Now().Add(c12B))
							if _, err := io.ReadFull(cn, b[:]); err == nil {
								got <- u64(b[:])
							}
						}()
					}
				}()
			} else {
				pcn, err := m.ListenPacket(addr)
				if err != nil {
					c.Violation("C12/forced/reacquire-during-last-close-failed", map[string]any{"kind": kind, "err": err.Error()})
					release()
					return false
				}
				second = pcn
				go func() {
					buf := make([]byte, 64)
					for {
						n, _, err := pcn.ReadFrom(buf)
						if err != nil {
							errCh <- err
							return
						}
						if n >= 8 {
							got <- u64(buf[:8])
						}
					}
				}()
			}
			want := map[uint64]bool{}
			for i := 0; i < nItems; i++ {
				id := nextID(c.Batch)
				want[id] = true
				if kind == "stream" {
					cn, err := net.DialTimeout("tcp", addr, c12B)
					if err != nil {
						c.Violation("C12/forced/reacquired-listener-refuses-connections", map[string]any{"err": err.Error()})
						release()
						return false
					}
					cn.Write(putU64(id))
					defer cn.Close()
				} else {
					uu, _ := net.DialUDP("udp", nil, &net.UDPAddr{IP: net.IPv4(127, 0, 0, 1), Port: port})
					uu.Write(putU64(id))
					uu.Close()
				}
				if i == nItems/2 {
					release() // the old closer finishes in the middle of the traffic
				}
			}
			deadline := time.After(c12B)
			for len(want) > 0 {
				select {
				case id := <-got:
					delete(want, id)
				case err := <-errCh:
					c.Violation("C12/unexpected-error-on-open-handle", map[string]any{"kind": kind, "phase": "re-acquired during last close", "err": err.Error(), "missing": len(want)})
					release()
					return false
				case <-deadline:
					c.Violation("C12/forced/reacquired-listener-does-not-deliver", map[string]any{"kind": kind, "missing": len(want)})
					release()
					return false
				}
			}
			release()
			service.VerifSetPointHook(nil)
			select {
			case <-closed:
			case <-time.After(c12B):
				c.Violation("C12/forced/last-close-never-returns", map[string]any{"kind": kind})
				return false
			}
			// the address is in use by `second`: a further acquisition shares it
			var third io.Closer
			if kind == "stream" {
				third, err = m.ListenStream(addr)
			} else {
				third, err = m.ListenPacket(addr)
			}
			if err != nil {
				c.Violation("C12/forced/acquire-of-an-address-in-use-failed", map[string]any{"kind": kind, "err": err.Error(), "history": "handle 1 closed (last close) while handle 2 was acquired; handle 2 open"})
				return false
			}
			third.Close()
			second.Close()
			select {
			case <-errCh: // the reader ends with ErrClosed now
			case <-time.After(c12B):
			}
			if !c12Released(c, kind, addr) {
				return false
			}
			c.Count("forced_reacquire_during_last_close", 1)
			c.Eval(fmt.Sprintf("forced|%s|reacquire-during-last-close|items=%d", kind, nItems))
		}

		// --- stream AND packet handles on one address through one manager (a service listening on
		// tcp and udp of one port): releasing every handle of one kind does not disturb the other kind ---
		for _, goes := range []string{"packet", "stream"} {
			m = service.NewListenerManager()
			port = freePort()
			addr = fmt.Sprintf("127.0.0.1:%d", port)
			s1, err1 := m.ListenStream(addr)
			p1, err2 := m.ListenPacket(addr)
			if err1 != nil || err2 != nil {
				c.Inconclusive(fmt.Sprintf("mixed kinds listen: %v %v", err1, err2))
				continue
			}
			stays := "stream"
			if goes == "stream" {
				stays = "packet"
				s1.Close()
			} else {
				p1.Close()
			}
			// the kind that stays is still shared: another acquisition works and is served
			var cl2 io.Closer
			if stays == "stream" {
				s2, err := m.ListenStream(addr)
				if err != nil {
					c.Violation("C12/forced/acquire-of-an-address-in-use-failed", map[string]any{"kind": "stream", "err": err.Error(), "history": "stream and packet handles on one address; the last packet handle was closed; a stream handle is open"})
					return false
				}
				cl2 = s2
				got := make(chan uint64, 2)
				for _, sl := range []service.StreamListener{s1, s2} {
					go func(sl service.StreamListener) {
						cn, err := sl.AcceptStream()
						if err != nil {
							return
						}
						defer cn.Close()
						var b [8]byte
						cn.SetReadDeadline(time.Now().Add(c12B))
						if _, err := io.ReadFull(cn, b[:]); err == nil {
							got <- u64(b[:])
						}
					}(sl)
				}
				id := nextID(c.Batch)
				cn, err := net.DialTimeout("tcp", addr, c12B)
				if err == nil {
					cn.Write(putU64(id))
					select {
					case g := <-got:
						if g != id {
							err = fmt.Errorf("wrong id")
						}
					case <-time.After(c12B):
						err = fmt.Errorf("not accepted")
					}
					cn.Close()
				}
				if err != nil {
					c.Violation("C12/connection-lost-while-a-handle-keeps-accepting", map[string]any{"history": "after the packet handles of the same address were released", "err": err.Error()})
					return false
				}
				s1.Close()
			} else {
				p2, err := m.ListenPacket(addr)
				if err != nil {
					c.Violation("C12/forced/acquire-of-an-address-in-use-failed", map[string]any{"kind": "packet", "err": err.Error(), "history": "stream and packet handles on one address; the last stream handle was closed; a packet handle is open"})
					return false
				}
				cl2 = p2
				uu, _ := net.DialUDP("udp", nil, &net.UDPAddr{IP: net.IPv4(127, 0, 0, 1), Port: port})
				id := nextID(c.Batch)
				uu.Write(putU64(id))
				res := make(chan uint64, 1)
				go func() {
					b := make([]byte, 64)
					p1.SetReadDeadline(time.Now().Add(c12B))
					if n, _, err := p1.ReadFrom(b); err == nil && n >= 8 {
						res <- u64(b[:8])
					} else {
						res <- 0
					}
				}()
				select {
				case g := <-res:
					if g != id {
						c.Violation("C12/datagram-lost-while-a-handle-keeps-reading", map[string]any{"history": "after the stream handles of the same address were released"})
						return false
					}
				case <-time.After(c12B + time.Second):
					c.Violation("C12/datagram-lost-while-a-handle-keeps-reading", map[string]any{"history": "after the stream handles of the same address were released"})
					return false
				}
				uu.Close()
				p1.Close()
			}
			cl2.Close()
			if !c12Released(c, stays, addr) {
				return false
			}
			c.Count("forced_mixed_kinds_on_one_address", 1)
			c.Eval("forced|mixed-kinds|" + goes + "-released-first")
		}

		// --- failed acquisition (address busy) followed by a successful one: the single
		// handle's close must still release everything ---
		for _, kind := range []string{"stream", "packet"} {
			m = service.NewListenerManager()
			port = freePort()
			addr = fmt.Sprintf("127.0.0.1:%d", port)
			var foreign io.Closer
			if kind == "stream" {
				foreign, err = net.Listen("tcp", addr)
			} else {
				foreign, err = net.ListenPacket("udp", addr)
			}
			if err != nil {
				c.Inconclusive("forced busy: " + err.Error())
				continue
			}
			nFail := 1 + r.Intn(3)
			for i := 0; i < nFail; i++ {
				var e error
				if kind == "stream" {
					_, e = m.ListenStream(addr)
				} else {
					_, e = m.ListenPacket(addr)
				}
				if e == nil {
					c.Violation("C12/forced/listen-on-busy-address-succeeded", map[string]any{"kind": kind})
					return false
				}
			}
			foreign.Close()
			var hcl io.Closer
			if kind == "stream" {
				hcl, err = m.ListenStream(addr)
			} else {
				hcl, err = m.ListenPacket(addr)
			}
			if err != nil {
				c.Violation("C12/forced/listen-after-address-freed-failed", map[string]any{"kind": kind, "err": err.Error()})
				return false
			}
			hcl.Close()
			if !c12Released(c, kind, addr) {
				return false
			}
			c.Count("forced_failed_then_successful_acquire", 1)
			c.Eval(fmt.Sprintf("forced|%s|failed-acquires=%d|then-success|release", kind, nFail))
		}
	}
	return true
}

// c12FDExhaustion: accept fails for a while because the process is out of file descriptors
// (a transient error, not "closed"); once descriptors are available again the shared listener
// keeps delivering connections to its open handles.
func c12FDExhaustion(c *vk.Ctx) bool {
	m := service.NewListenerManager()
	addr := fmt.Sprintf("127.0.0.1:%d", freePort())
	h, err := m.ListenStream(addr)
	if err != nil {
		return true
	}
	defer h.Close()
	type ares struct {
		id  uint64
		err error
	}
	results := make(chan ares, 64)
	go func() {
		for {
			cn, err := h.AcceptStream()
			if err != nil {
				if errors.Is(err, net.ErrClosed) {
					results <- ares{0, err}
					return
				}
				continue // transient: keep accepting, as StreamServe does
			}
			var b [8]byte
			cn.SetReadDeadline(time.Now().Add(c12B))
			if _, err := io.ReadFull(cn, b[:]); err == nil {
				results <- ares{u64(b[:]), nil}
			}
			cn.Close()
		}
	}()
	var lim syscall.Rlimit
	if syscall.Getrlimit(syscall.RLIMIT_NOFILE, &lim) != nil {
		return true
	}
	// a client connection made while descriptors are available, to be accepted during the shortage
	pre, err := net.DialTimeout("tcp", addr, c12B)
	if err != nil {
		return true
	}
	id0 := nextID(c.Batch)
	pre.Write(putU64(id0))
	select {
	case <-results:
	case <-time.After(c12B):
	}
	pre.Close()
	low := lim
	low.Cur = uint64(len(lab.FDs(os.Getpid())) + 3)
	if syscall.Setrlimit(syscall.RLIMIT_NOFILE, &low) != nil {
		return true
	}
	var hog []*os.File
	for {
		f, err := os.Open("/dev/null")
		if err != nil {
			break
		}
		hog = append(hog, f)
	}
	// the kernel completes these handshakes; accept() in the server fails with EMFILE meanwhile
	var pend []net.Conn
	if len(hog) > 0 {
		hog[len(hog)-1].Close() // one descriptor for our own client socket
		hog = hog[:len(hog)-1]
	}
	if cn, err := net.DialTimeout("tcp", addr, 2*time.Second); err == nil {
		pend = append(pend, cn)
	}
	time.Sleep(50 * time.Millisecond)
	for _, f := range hog {
		f.Close()
	}
	syscall.Setrlimit(syscall.RLIMIT_NOFILE, &lim)
	for _, cn := range pend {
		cn.Close()
	}
	// descriptors are back: new connections must be delivered to the open handle
	for i := 0; i < 5; i++ {
		cn, err := net.DialTimeout("tcp", addr, c12B)
		if err != nil {
			c.Violation("C12/listener-stops-accepting-after-transient-accept-error", map[string]any{"dial_error": err.Error()})
			return false
		}
		id := nextID(c.Batch)
		cn.Write(putU64(id))
		deadline := time.After(c12B)
		found := false
		for !found {
			select {
			case ar := <-results:
				if ar.err != nil {
					c.Violation("C12/open-handle-reports-closed-after-transient-accept-error", map[string]any{"err": ar.err.Error()})
					cn.Close()
					return false
				}
				found = ar.id == id
			case <-deadline:
				c.Violation("C12/listener-stops-accepting-after-transient-accept-error", map[string]any{"connection": i})
				cn.Close()
				return false
			}
		}
		cn.Close()
	}
	c.Count("fd_exhaustion_recoveries", 1)
	c.Eval("fault|stream|accept-fails-EMFILE-then-recovers")
	return true
}

func c12Run(c *vk.Ctx) {
	lab.MustSetup(c.RunDir)
	baseFD := len(lab.FDs(os.Getpid()))
	for i := 0; i < c.N(4, 16); i++ {
		packet := i%2 == 1
		if !c12Random(c, packet) {
			return
		}
		c.Eval(fmt.Sprintf("random|packet=%v|round=%d", packet, i%4))
	}
	if !c12Forced(c) {
		return
	}
	if !c12PacketBurst(c) {
		return
	}
	if !c12FDExhaustion(c) {
		return
	}
	// fd table back to baseline (sockets of the listeners and of the clients are gone)
	deadline := time.Now().Add(c12B)
	for len(lab.FDs(os.Getpid())) > baseFD+2 && time.Now().Before(deadline) {
		time.Sleep(20 * time.Millisecond)
	}
	if n := len(lab.FDs(os.Getpid())); n > baseFD+2 {
		c.Violation("C12/file-descriptors-not-released", map[string]any{"baseline": baseFD, "now": n, "fds": lab.FDs(os.Getpid())})
	}
}

func init() {
	vk.Register(&vk.Spec{
		ID:    "C12",
		Level: "exploration",
		Rule: "random: per round one anchor handle keeps accepting while 0..5 other handles on the same address are acquired and closed (synchronously or concurrently with traffic), 150..500 connections/datagrams with unique ids; calls are stamped at the handle boundary; " +
			"forced (hook H3): connection held by the fan-out goroutine while a non-last / the last handle closes, reads on a closed packet handle with 1..3 datagrams pending, pending read unblocked by close, re-acquisition after full release, read request taken by the fan-out then reader closes, stream and packet handles on one address, acquisition of an address in use after a racing last close, repeated Close of stream handles; burst: 2 senders back to back, 4 concurrent readers on one handle + 1 on another, self-describing datagrams; after every last close: rebind, no listeners.go goroutine, fd table at baseline; class = (phase, kind, scenario)",
		Assumptions: []string{"B = 10 s bounded-progress restatement of 'is delivered / returns' (normal: < 5 ms on loopback)"},
		Batches:     func(t string) int { return map[string]int{"quick": 6, "thorough": 24}[t] },
		Parallel:    func(t string) int { return 6 },
		Timeout:     func(t string) time.Duration { return 20 * time.Minute },
		Run: func(c *vk.Ctx) {
			c.Require("stream_ids_delivered_exactly_once")
			c.Require("packet_ids_delivered_exactly_once")
			c.Require("forced_stream_conn_in_flight_at_last_close")
			c.Require("forced_stream_conn_in_flight_at_other_close")
			c.Require("forced_packet_pending_vs_closed_handle")
			c.Require("release_checks")
			c.Require("forced_failed_then_successful_acquire")
			c.Require("forced_accept_racing_last_close")
			c.Require("forced_reacquire_during_last_close")
			c.Require("forced_two_handles_accept_vs_close")
			c.Require("forced_packet_request_taken_vs_close")
			c.Require("forced_mixed_kinds_on_one_address")
			c.Require("fd_exhaustion_recoveries")
			c.Require("burst_datagrams_each_returned_by_exactly_one_read")
			c.Require("largest_datagrams_returned_whole")
			c12Run(c)
		},
	})
}

var _ = rand.Int
