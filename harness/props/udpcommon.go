package props

import (
	"encoding/binary"
	"fmt"
	"net"
	"sync"
	"time"

	"verifharness/sscodec"
)

const udpB = 10 * time.Second

// UDP payload layout used by the UDP checks: [8 id][1 replies][2 replySize][fill...]
// Shorter payloads (size < 11) are raw bytes without a header and ask for no reply.
func mkUDPPayload(id uint64, replies int, replySize int, size int) []byte {
	if size < 11 {
		b := make([]byte, size)
		prngStream(id, 0, b)
		return b
	}
	b := make([]byte, size)
	binary.BigEndian.PutUint64(b, id)
	b[8] = byte(replies)
	binary.BigEndian.PutUint16(b[9:], uint16(replySize))
	prngStream(id, 11, b[11:])
	return b
}

func udpPayloadID(b []byte) (uint64, bool) {
	if len(b) < 11 {
		return 0, false
	}
	return binary.BigEndian.Uint64(b), true
}

// replyPayload is what a target sends back for request id, reply index i (1-based).
func replyPayload(id uint64, i int, size int) []byte {
	if size == 0 {
		return []byte{} // an empty datagram: legal UDP, carries no id
	}
	if size < 8 {
		size = 8
	}
	b := make([]byte, size)
	rid := id | uint64(i)<<56
	binary.BigEndian.PutUint64(b, rid)
	prngStream(rid, 8, b[8:])
	return b
}

// udpTarget is a recording UDP endpoint that answers according to the request header.
type udpTarget struct {
	*UDPEnd
	Name string
	stop chan struct{}
	mu   sync.Mutex
	// Hold, when set, makes the target withhold replies until released.
	hold     bool
	held     []func()
	SentTo   []recvEv // replies sent (From = destination)
	sentByte int64
}

func startUDPTarget(name string, ip net.IP, port int) (*udpTarget, error) {
	e, err := NewUDPEnd(ip, port)
	if err != nil {
		return nil, err
	}
	t := &udpTarget{UDPEnd: e, Name: name, stop: make(chan struct{})}
	go func() {
		seen := 0
		for {
			select {
			case <-t.stop:
				return
			default:
			}
			snap := t.Snap()
			for _, g := range snap[seen:] {
				seen++
				id, ok := udpPayloadID(g.Data)
				if !ok {
					continue
				}
				n, rs := int(g.Data[8]), int(binary.BigEndian.Uint16(g.Data[9:]))
				to, _ := net.ResolveUDPAddr("udp", g.From)
				send := func() {
					for i := 1; i <= n; i++ {
						p := replyPayload(id, i, rs)
						if t.Send(p, to) == nil {
							t.mu.Lock()
							t.SentTo = append(t.SentTo, recvEv{time.Now(), g.From, p})
							t.sentByte += int64(len(p))
							t.mu.Unlock()
						}
					}
				}
				t.mu.Lock()
				if t.hold {
					t.held = append(t.held, send)
					t.mu.Unlock()
				} else {
					t.mu.Unlock()
					send()
				}
			}
			time.Sleep(200 * time.Microsecond)
		}
	}()
	return t, nil
}

func (t *udpTarget) SetHold(h bool) {
	t.mu.Lock()
	t.hold = h
	var run []func()
	if !h {
		run, t.held = t.held, nil
	}
	t.mu.Unlock()
	for _, f := range run {
		f()
	}
}

func (t *udpTarget) Stop() { close(t.stop); t.Close() }

// findID returns the datagrams received whose header id equals id.
func (t *udpTarget) findID(id uint64) []recvEv {
	var out []recvEv
	for _, g := range t.Snap() {
		if gid, ok := udpPayloadID(g.Data); ok && gid == id {
			out = append(out, g)
		}
	}
	return out
}

func (t *udpTarget) waitID(id uint64, within time.Duration) (recvEv, bool) {
	deadline := time.Now().Add(within)
	for {
		if g := t.findID(id); len(g) > 0 {
			return g[0], true
		}
		if time.Now().After(deadline) {
			return recvEv{}, false
		}
		time.Sleep(300 * time.Microsecond)
	}
}

func (t *udpTarget) addr() []byte { return sscodec.AddrIP(t.Addr.IP, t.Addr.Port, false) }

// decodedReply is a server->client datagram opened with the independent codec.
type decodedReply struct {
	Salt     string
	AddrType byte
	Host     string
	Port     int
	Payload  []byte
	Wire     int
}

func decodeReply(k KeySpec, pkt []byte) (*decodedReply, error) {
	salt, pt, err := sscodec.UnpackUDP(k.Codec(), pkt)
	if err != nil {
		return nil, err
	}
	typ, host, port, n, err := sscodec.ParseAddr(pt)
	if err != nil {
		return nil, fmt.Errorf("reply address: %v", err)
	}
	return &decodedReply{Salt: string(salt), AddrType: typ, Host: host, Port: port, Payload: pt[n:], Wire: len(pkt)}, nil
}

// udpClient is a client socket with its current key.
type udpClient struct {
	*UDPEnd
	Key  KeySpec
	seen int
}

func newUDPClient(ip net.IP, port int, k KeySpec) (*udpClient, error) {
	e, err := NewUDPEnd(ip, port)
	if err != nil {
		return nil, err
	}
	return &udpClient{UDPEnd: e, Key: k}, nil
}

// waitReply waits for a datagram that opens under k and carries reply id rid.
func (c *udpClient) waitReply(k KeySpec, rid uint64, within time.Duration) (*decodedReply, bool) {
	deadline := time.Now().Add(within)
	for {
		for _, g := range c.Snap() {
			d, err := decodeReply(k, g.Data)
			if err == nil && len(d.Payload) >= 8 && binary.BigEndian.Uint64(d.Payload) == rid {
				return d, true
			}
		}
		if time.Now().After(deadline) {
			return nil, false
		}
		time.Sleep(300 * time.Microsecond)
	}
}

func sscodecUDPAddr(a *net.UDPAddr) []byte { return sscodec.AddrIP(a.IP, a.Port, false) }
