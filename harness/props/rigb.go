package props

import (
	"bufio"
	"bytes"
	"fmt"
	"io"
	"net"
	"net/http"
	"os"
	"os/exec"
	"path/filepath"
	"regexp"
	"sort"
	"strconv"
	"strings"
	"sync/atomic"
	"syscall"
	"time"

	"verifharness/sscodec"
)

// ---------- configuration model ----------

type LnSpec struct {
	Type string `json:"type"` // tcp | udp
	Addr string `json:"address"`
}

type SvcSpec struct {
	Listeners []LnSpec  `json:"listeners"`
	Keys      []KeySpec `json:"keys"`
}

type LegacyKey struct {
	KeySpec
	Port int `json:"port"`
}

type ConfSpec struct {
	Services []SvcSpec   `json:"services"`
	Legacy   []LegacyKey `json:"legacy_keys"`
}

func (cf ConfSpec) YAML() string {
	var b strings.Builder
	if len(cf.Services) > 0 {
		b.WriteString("services:\n")
		for _, s := range cf.Services {
			b.WriteString("  - listeners:\n")
			for _, l := range s.Listeners {
				fmt.Fprintf(&b, "      - type: %s\n        address: \"%s\"\n", l.Type, l.Addr)
			}
			b.WriteString("    keys:\n")
			for _, k := range s.Keys {
				fmt.Fprintf(&b, "      - id: %s\n        cipher: %s\n        secret: %q\n", k.ID, k.Cipher, k.Secret)
			}
		}
	}
	if len(cf.Legacy) > 0 {
		b.WriteString("keys:\n")
		for _, k := range cf.Legacy {
			fmt.Fprintf(&b, "  - id: %s\n    port: %d\n    cipher: %s\n    secret: %q\n", k.ID, k.Port, k.Cipher, k.Secret)
		}
	}
	if b.Len() == 0 {
		return "services: []\n"
	}
	return b.String()
}

// Endpoint is one listening endpoint of a configuration with the keys that own it.
type Endpoint struct {
	Type  string
	Addr  string // address to listen on as configured
	Keys  []KeySpec
	Owner string // "svc0", "port9000", ...
}

// Endpoints lists every listener of the configuration.
func (cf ConfSpec) Endpoints() []Endpoint {
	var out []Endpoint
	for i, s := range cf.Services {
		for _, l := range s.Listeners {
			out = append(out, Endpoint{l.Type, l.Addr, s.Keys, fmt.Sprintf("svc%d", i)})
		}
	}
	ports := map[int][]KeySpec{}
	var order []int
	for _, k := range cf.Legacy {
		if _, ok := ports[k.Port]; !ok {
			order = append(order, k.Port)
		}
		ports[k.Port] = append(ports[k.Port], k.KeySpec)
	}
	for _, p := range order {
		out = append(out, Endpoint{"tcp", fmt.Sprintf(":%d", p), ports[p], fmt.Sprintf("port%d", p)})
		out = append(out, Endpoint{"udp", fmt.Sprintf(":%d", p), ports[p], fmt.Sprintf("port%d", p)})
	}
	return out
}

// AllKeys lists every key of the whole configuration.
func (cf ConfSpec) AllKeys() []KeySpec {
	var out []KeySpec
	for _, s := range cf.Services {
		out = append(out, s.Keys...)
	}
	for _, k := range cf.Legacy {
		out = append(out, k.KeySpec)
	}
	return out
}

// DialAddr turns a configured listen address into one a client can dial.
func DialAddr(listen string) string {
	h, p, _ := net.SplitHostPort(listen)
	switch h {
	case "", "0.0.0.0":
		h = "203.0.113.200"
	case "::":
		h = "2001:db8:200::1"
	}
	return net.JoinHostPort(h, p)
}

// ExpectedListening returns the sorted "tcp ip:port"/"udp ip:port" rows the process must own.
func (cf ConfSpec) ExpectedListening() []string {
	var out []string
	for _, e := range cf.Endpoints() {
		h, p, _ := net.SplitHostPort(e.Addr)
		if h == "" {
			h = "::"
		}
		out = append(out, e.Type+" "+net.JoinHostPort(net.ParseIP(h).String(), p))
	}
	sort.Strings(out)
	return out
}

// firstIDFor returns the id the property promises for (cipher, secret) on an endpoint.
func firstIDFor(keys []KeySpec, k KeySpec) (string, bool) {
	for _, o := range keys {
		if o.Cipher == k.Cipher && o.Secret == k.Secret {
			return o.ID, true
		}
	}
	return "", false
}

// ---------- the server process ----------

type ServerProc struct {
	Dir         string
	CfgPath     string
	LogPath     string
	MetricsAddr string
	Cmd         *exec.Cmd
	Pid         int
	logPos      int64
	exited      atomic.Bool
	waitErr     error
	done        chan struct{}
}

type ServerOpts struct {
	ReplayHistory int
	UDPTimeout    time.Duration
	Env           []string
	Strace        string // when set: path of the strace output file; the server runs under strace -f
	MetricsPort   int
	Verbose       bool // run the server with --verbose (debug logging)
}

var srvCounter atomic.Int64

func serverBin() string {
	b := os.Getenv("VERIF_SERVER_BIN")
	if b == "" {
		fatalf("VERIF_SERVER_BIN not set (the check script builds the server for process-level checks)")
	}
	return b
}

// StartServer launches the real binary with the given configuration and waits for it to load.
func StartServer(parent string, cf ConfSpec, o ServerOpts) (*ServerProc, error) {
	n := srvCounter.Add(1)
	dir := filepath.Join(parent, fmt.Sprintf("srv%d", n))
	os.MkdirAll(dir, 0o755)
	if o.MetricsPort == 0 {
		o.MetricsPort = 9100 + int(n%500)
	}
	s := &ServerProc{Dir: dir, CfgPath: filepath.Join(dir, "config.yml"), LogPath: filepath.Join(dir, "server.log"),
		MetricsAddr: fmt.Sprintf("127.0.0.1:%d", o.MetricsPort), done: make(chan struct{})}
	if err := os.WriteFile(s.CfgPath, []byte(cf.YAML()), 0o644); err != nil {
		return nil, err
	}
	args := []string{"--config", s.CfgPath, "--metrics", s.MetricsAddr, "--replay_history", strconv.Itoa(o.ReplayHistory)}
	if o.Verbose {
		args = append(args, "--verbose")
	}
	if o.UDPTimeout > 0 {
		args = append(args, "--udptimeout", o.UDPTimeout.String())
	}
	bin := serverBin()
	if o.Strace != "" {
		args = append([]string{"-f", "-qq", "-yy", "-e", "trace=connect,sendto,sendmsg,sendmmsg", "-o", o.Strace, bin}, args...)
		bin = "strace"
	}
	cmd := exec.Command(bin, args...)
	logf, err := os.Create(s.LogPath)
	if err != nil {
		return nil, err
	}
	cmd.Stdout, cmd.Stderr = logf, logf
	cmd.Env = append(os.Environ(), "GORACE=halt_on_error=0 history_size=4 log_path="+filepath.Join(dir, "race"), "GODEBUG=netdns=go", "GOTRACEBACK=all")
	cmd.Env = append(cmd.Env, o.Env...)
	cmd.SysProcAttr = &syscall.SysProcAttr{Setpgid: true}
	if err := cmd.Start(); err != nil {
		return nil, err
	}
	logf.Close()
	s.Cmd, s.Pid = cmd, cmd.Process.Pid
	go func() {
		s.waitErr = cmd.Wait()
		s.exited.Store(true)
		close(s.done)
	}()
	marker, err := s.WaitLog([]string{"Loaded config.", "Server failed to start"}, 60*time.Second)
	if err != nil {
		return s, err
	}
	for _, e := range o.Env {
		if strings.HasPrefix(e, "VERIF_POINT_newStarted=") {
			// the initial load also passes the scheduling point, before SIGHUP handling is installed
			if _, err := s.WaitLog([]string{"verif point left"}, 60*time.Second); err != nil {
				return s, err
			}
			time.Sleep(20 * time.Millisecond)
		}
	}
	if o.Strace != "" {
		// the traced process is the child of strace
		if pid := childOf(s.Pid); pid > 0 {
			s.Pid = pid
		}
	}
	if strings.Contains(marker, "failed to start") {
		return s, fmt.Errorf("server failed to start: %s", marker)
	}
	return s, nil
}

func childOf(pid int) int {
	b, err := os.ReadFile(fmt.Sprintf("/proc/%d/task/%d/children", pid, pid))
	if err != nil {
		return 0
	}
	f := strings.Fields(string(b))
	if len(f) == 0 {
		return 0
	}
	n, _ := strconv.Atoi(f[0])
	return n
}

// WaitLog waits for a new log line containing one of the markers (from the current log position).
func (s *ServerProc) WaitLog(markers []string, within time.Duration) (string, error) {
	deadline := time.Now().Add(within)
	for {
		f, err := os.Open(s.LogPath)
		if err == nil {
			f.Seek(s.logPos, io.SeekStart)
			rd := bufio.NewReader(f)
			pos := s.logPos
			for {
				line, err := rd.ReadString('\n')
				if err != nil {
					break // incomplete line: re-read next time
				}
				pos += int64(len(line))
				for _, m := range markers {
					if strings.Contains(line, m) {
						s.logPos = pos
						f.Close()
						return strings.TrimSpace(line), nil
					}
				}
			}
			s.logPos = pos
			f.Close()
		}
		if s.exited.Load() {
			return "", fmt.Errorf("server exited: %v", s.waitErr)
		}
		if time.Now().After(deadline) {
			return "", fmt.Errorf("no log marker %v within %s", markers, within)
		}
		time.Sleep(3 * time.Millisecond)
	}
}

// ReloadsInFlight reads the server's own log: the number of reloads it has started ("SIGHUP
// received") minus the number it has finished (completion or failure marker).
func (s *ServerProc) ReloadsInFlight() int {
	b, err := os.ReadFile(s.LogPath)
	if err != nil {
		return 0
	}
	t := string(b)
	return strings.Count(t, "SIGHUP received. Loading config.") - strings.Count(t, "Stopped all listeners for running config") - strings.Count(t, "Failed to update server")
}

// WaitReloadsDone waits until every reload the server has started has also finished (bounded).
func (s *ServerProc) WaitReloadsDone(within time.Duration) bool {
	for dl := time.Now().Add(within); time.Now().Before(dl); time.Sleep(5 * time.Millisecond) {
		if s.ReloadsInFlight() <= 0 {
			// a signal that was delivered but not yet logged: look once more a moment later
			time.Sleep(30 * time.Millisecond)
			if s.ReloadsInFlight() <= 0 {
				return true
			}
		}
	}
	return false
}

// atomicWrite replaces a file in one step (write aside + rename), so that a server that is
// reading the configuration at that moment sees either the old or the new content, never a
// truncated file.
func atomicWrite(path string, data []byte) error {
	tmp := path + ".new"
	if err := os.WriteFile(tmp, data, 0o644); err != nil {
		return err
	}
	return os.Rename(tmp, path)
}

// Reload writes the configuration file content (raw) and sends SIGHUP; returns "ok" or "failed".
func (s *ServerProc) Reload(raw []byte, within time.Duration) (string, error) {
	if raw != nil {
		if err := atomicWrite(s.CfgPath, raw); err != nil {
			return "", err
		}
	}
	return s.ReloadNoWrite(within)
}

func (s *ServerProc) ReloadNoWrite(within time.Duration) (string, error) {
	if err := syscall.Kill(s.Pid, syscall.SIGHUP); err != nil {
		return "", err
	}
	line, err := s.WaitLog([]string{"Stopped all listeners for running config", "Failed to update server"}, within)
	if err != nil {
		return "", err
	}
	if strings.Contains(line, "Failed to update server") {
		return "failed", nil
	}
	return "ok", nil
}

func (s *ServerProc) Alive() bool { return !s.exited.Load() }

// Metrics fetches and parses the Prometheus text exposition into series -> value.
func (s *ServerProc) Metrics() (map[string]float64, error) {
	cl := http.Client{Timeout: 10 * time.Second, Transport: &http.Transport{DisableKeepAlives: true}}
	resp, err := cl.Get("http://" + s.MetricsAddr + "/metrics")
	if err != nil {
		return nil, err
	}
	defer resp.Body.Close()
	out := map[string]float64{}
	sc := bufio.NewScanner(resp.Body)
	sc.Buffer(make([]byte, 1<<20), 1<<20)
	for sc.Scan() {
		l := sc.Text()
		if l == "" || l[0] == '#' {
			continue
		}
		i := strings.LastIndex(l, " ")
		if i < 0 {
			continue
		}
		v, err := strconv.ParseFloat(l[i+1:], 64)
		if err != nil {
			continue
		}
		out[l[:i]] = v
	}
	return out, nil
}

var reLabel = regexp.MustCompile(`(\w+)="((?:[^"\\]|\\.)*)"`)

// metricSum sums all series of `name` whose labels include all of `match`.
func metricSum(m map[string]float64, name string, match map[string]string) float64 {
	sum := 0.0
	for series, v := range m {
		n := series
		labels := ""
		if i := strings.Index(series, "{"); i >= 0 {
			n, labels = series[:i], series[i:]
		}
		if n != name {
			continue
		}
		ls := map[string]string{}
		for _, mm := range reLabel.FindAllStringSubmatch(labels, -1) {
			ls[mm[1]] = mm[2]
		}
		ok := true
		for k, want := range match {
			if ls[k] != want {
				ok = false
			}
		}
		if ok {
			sum += v
		}
	}
	return sum
}

// QuitDump sends SIGQUIT and returns the goroutine dump from the log.
func (s *ServerProc) QuitDump() string {
	pos := s.logPos
	syscall.Kill(s.Pid, syscall.SIGQUIT)
	select {
	case <-s.done:
	case <-time.After(20 * time.Second):
		syscall.Kill(-s.Cmd.Process.Pid, syscall.SIGKILL)
		<-s.done
	}
	b, _ := os.ReadFile(s.LogPath)
	if int64(len(b)) > pos {
		return string(b[pos:])
	}
	return string(b)
}

func (s *ServerProc) Stop() {
	if s.Alive() {
		syscall.Kill(-s.Cmd.Process.Pid, syscall.SIGKILL)
		<-s.done
	}
}

func (s *ServerProc) LogTail(n int) string {
	b, _ := os.ReadFile(s.LogPath)
	if len(b) > n {
		b = b[len(b)-n:]
	}
	return string(b)
}

// ---------- client probes against the real server ----------

// tcpExchange performs one exchange against a dial address; returns the echoed bytes.
func tcpExchange(dial string, src net.IP, k KeySpec, salt []byte, target net.IP, port int, payload []byte, within time.Duration) (reply []byte, stream []byte, err error) {
	cl, err := DialSS(dial, src, k, salt)
	if err != nil {
		return nil, nil, err
	}
	defer cl.Conn.Close()
	stream = cl.Enc.Encode(append(sscodec.AddrIP(target, port, false), payload...), nil)
	if err := cl.WriteRaw(stream); err != nil {
		return nil, stream, err
	}
	cl.Conn.CloseWrite()
	reply, err = cl.ReadAllPlain(time.Now().Add(within))
	return reply, stream, err
}

// echoHub starts a TCP hub that echoes what it reads until EOF, and a UDP echo target.
func echoTCP(tc *TargetConn) {
	var buf bytes.Buffer
	tc.SetReadDeadline(time.Now().Add(20 * time.Second))
	io.Copy(&buf, tc)
	tc.Write(buf.Bytes())
	tc.Close()
}

// sscodecAddr is the SOCKS address of the echo hub for a case number.
func sscodecAddr(caseN uint64, port int) []byte {
	return sscodec.AddrIP(caseIP4(caseN&0xffffff), port, false)
}
