package props

import (
	"context"
	"fmt"
	"io"
	"math/rand"
	"net"
	"sync"
	"sync/atomic"
	"syscall"
	"time"

	"github.com/Jigsaw-Code/outline-sdk/transport"
	"github.com/Jigsaw-Code/outline-ss-server/service"
	"github.com/Jigsaw-Code/outline-ss-server/service/metrics"

	"verifharness/sscodec"
)

// ---------- server-side recording ----------

type connEv struct {
	T    time.Time
	Kind string // read, write, setReadDeadline, setDeadline, setWriteDeadline, closeRead, closeWrite, close
	N    int
	Err  string
	DL   time.Time
}

// recConn wraps the accepted *net.TCPConn and records what the server does with it.
// It deliberately does not implement ReadFrom/WriteTo, so that the generic copy loops run;
// the "raw" rig mode hands the *net.TCPConn over directly so the fast paths run too.
type recConn struct {
	c   *net.TCPConn
	rec *TCPConnRec
}

func (r *recConn) ev(e connEv) {
	e.T = time.Now()
	r.rec.mu.Lock()
	if len(r.rec.ConnEvents) < 4000 {
		r.rec.ConnEvents = append(r.rec.ConnEvents, e)
	}
	switch e.Kind {
	case "read":
		r.rec.BytesRead += int64(e.N)
	case "write":
		r.rec.BytesWritten += int64(e.N)
		r.rec.Writes++
	}
	r.rec.mu.Unlock()
}
func errStr(err error) string {
	if err == nil {
		return ""
	}
	return err.Error()
}
func (r *recConn) Read(b []byte) (int, error) {
	n, err := r.c.Read(b)
	r.ev(connEv{Kind: "read", N: n, Err: errStr(err)})
	return n, err
}
func (r *recConn) Write(b []byte) (int, error) {
	n, err := r.c.Write(b)
	r.ev(connEv{Kind: "write", N: n, Err: errStr(err)})
	return n, err
}
func (r *recConn) Close() error         { r.ev(connEv{Kind: "close"}); return r.c.Close() }
func (r *recConn) CloseRead() error     { r.ev(connEv{Kind: "closeRead"}); return r.c.CloseRead() }
func (r *recConn) CloseWrite() error    { r.ev(connEv{Kind: "closeWrite"}); return r.c.CloseWrite() }
func (r *recConn) LocalAddr() net.Addr  { return r.c.LocalAddr() }
func (r *recConn) RemoteAddr() net.Addr { return r.c.RemoteAddr() }
func (r *recConn) SetDeadline(t time.Time) error {
	r.ev(connEv{Kind: "setDeadline", DL: t})
	return r.c.SetDeadline(t)
}
func (r *recConn) SetReadDeadline(t time.Time) error {
	r.ev(connEv{Kind: "setReadDeadline", DL: t})
	return r.c.SetReadDeadline(t)
}
func (r *recConn) SetWriteDeadline(t time.Time) error {
	r.ev(connEv{Kind: "setWriteDeadline", DL: t})
	return r.c.SetWriteDeadline(t)
}

var _ transport.StreamConn = (*recConn)(nil)

type probeEv struct {
	Status, Drain string
	Bytes         int64
	T             time.Time
}
type closedEv struct {
	Status string
	Data   metrics.ProxyMetrics
	Dur    time.Duration
	T      time.Time
}

// TCPConnRec is everything observed on the server side for one accepted connection.
type TCPConnRec struct {
	mu           sync.Mutex
	Remote       string
	Accepted     time.Time
	Seq          []string // order of metric calls: auth, probe, closed
	Auth         []string
	Probes       []probeEv
	Closed       []closedEv
	ConnEvents   []connEv
	BytesRead    int64
	BytesWritten int64
	Writes       int
	Returned     time.Time
	done         chan struct{}
	tee          service.TCPConnMetrics
}

func (m *TCPConnRec) AddAuthenticated(accessKey string) {
	// the real collector first (see UDPAssocRec.RemoveNatEntry)
	if m.tee != nil {
		m.tee.AddAuthenticated(accessKey)
	}
	m.mu.Lock()
	m.Seq = append(m.Seq, "auth")
	m.Auth = append(m.Auth, accessKey)
	m.mu.Unlock()
}
func (m *TCPConnRec) AddClosed(status string, data metrics.ProxyMetrics, d time.Duration) {
	if m.tee != nil {
		m.tee.AddClosed(status, data, d)
	}
	m.mu.Lock()
	m.Seq = append(m.Seq, "closed")
	m.Closed = append(m.Closed, closedEv{status, data, d, time.Now()})
	m.mu.Unlock()
}
func (m *TCPConnRec) AddProbe(status, drainResult string, n int64) {
	m.mu.Lock()
	m.Seq = append(m.Seq, "probe")
	m.Probes = append(m.Probes, probeEv{status, drainResult, n, time.Now()})
	m.mu.Unlock()
	if m.tee != nil {
		m.tee.AddProbe(status, drainResult, n)
	}
}

// Snapshot returns a copy safe to inspect.
type TCPConnSnap struct {
	Remote       string
	Seq          []string
	Auth         []string
	Probes       []probeEv
	Closed       []closedEv
	ConnEvents   []connEv
	BytesRead    int64
	BytesWritten int64
	Writes       int
	Accepted     time.Time
	Returned     time.Time
}

func (m *TCPConnRec) Snap() TCPConnSnap {
	m.mu.Lock()
	defer m.mu.Unlock()
	return TCPConnSnap{m.Remote, append([]string(nil), m.Seq...), append([]string(nil), m.Auth...), append([]probeEv(nil), m.Probes...),
		append([]closedEv(nil), m.Closed...), append([]connEv(nil), m.ConnEvents...), m.BytesRead, m.BytesWritten, m.Writes, m.Accepted, m.Returned}
}

func (s TCPConnSnap) Status() string {
	if len(s.Closed) == 0 {
		return ""
	}
	return s.Closed[len(s.Closed)-1].Status
}

// ---------- the rig ----------

type TCPRigOpts struct {
	Timeout   time.Duration
	Replay    *service.ReplayCache
	Raw       bool                   // hand raw *net.TCPConn to the handler
	Tee       service.ServiceMetrics // real collectors to tee into (optional)
	ListenIP  net.IP                 // default: wildcard dual-stack
	SSMetrics service.ShadowsocksConnMetrics
	// CloseAfterAccepts > 0: the accept function closes the listener right after it has obtained
	// its N-th connection, before handing the connection to StreamServe.
	CloseAfterAccepts int
	// ViaManager: the listener is obtained from a service.ListenerManager (as the server binary
	// does) on ManagerAddr instead of being created by the harness.
	ViaManager  bool
	ManagerAddr string
}

type TCPRig struct {
	Keys    []KeySpec
	CL      service.CipherList
	Ln      *net.TCPListener
	Port    int
	Handler service.StreamHandler
	opts    TCPRigOpts

	mu    sync.Mutex
	conns map[string]*TCPConnRec
	order []*TCPConnRec

	closer        io.Closer
	active        atomic.Int64
	lastReturn    atomic.Int64 // unix nano of the last handler return
	serveReturned atomic.Int64 // unix nano when StreamServe returned
	// fault injection: the next N calls of the accept function fail at once with EMFILE
	// ("too many open files"), as accept(2) does while a flood has exhausted the descriptors
	acceptFaults         atomic.Int64
	acceptFaultsReturned atomic.Int64
	done                 chan struct{}
}

func StartTCPRig(keys []KeySpec, o TCPRigOpts) *TCPRig {
	if o.Timeout == 0 {
		o.Timeout = 2 * time.Second
	}
	rig := &TCPRig{Keys: keys, CL: BuildCipherList(keys), opts: o, conns: map[string]*TCPConnRec{}, done: make(chan struct{})}
	var ln *net.TCPListener
	var sl service.StreamListener
	if o.ViaManager {
		var err error
		sl, err = service.NewListenerManager().ListenStream(o.ManagerAddr)
		if err != nil {
			fatalf("rig listen via manager: %v", err)
		}
		rig.Port = sl.Addr().(*net.TCPAddr).Port
		rig.closer = sl
	} else {
		var err error
		ln, err = net.ListenTCP("tcp", &net.TCPAddr{IP: o.ListenIP})
		if err != nil {
			fatalf("rig listen: %v", err)
		}
		rig.Ln = ln
		rig.Port = ln.Addr().(*net.TCPAddr).Port
		rig.closer = ln
	}
	auth := service.NewShadowsocksStreamAuthenticator(rig.CL, o.Replay, o.SSMetrics, nil)
	rig.Handler = service.NewStreamHandler(auth, o.Timeout)
	accept := func() (transport.StreamConn, error) {
		if rig.acceptFaults.Load() > 0 && rig.acceptFaults.Add(-1) >= 0 {
			rig.acceptFaultsReturned.Add(1)
			return nil, &net.OpError{Op: "accept", Net: "tcp", Err: syscall.EMFILE}
		}
		var c *net.TCPConn
		if sl != nil {
			sc, err := sl.AcceptStream()
			if err != nil {
				return nil, err
			}
			tc, ok := sc.(*net.TCPConn)
			if !ok {
				fatalf("manager listener returned %T, not *net.TCPConn", sc)
			}
			c = tc
		} else {
			var err error
			c, err = ln.AcceptTCP()
			if err != nil {
				return nil, err
			}
		}
		rec := &TCPConnRec{Remote: c.RemoteAddr().String(), Accepted: time.Now(), done: make(chan struct{})}
		rig.mu.Lock()
		rig.conns[rec.Remote] = rec
		rig.order = append(rig.order, rec)
		n := len(rig.order)
		rig.mu.Unlock()
		if o.CloseAfterAccepts > 0 && n == o.CloseAfterAccepts {
			rig.closer.Close()
		}
		if o.Raw {
			return &rawTagged{TCPConn: c, rec: rec}, nil
		}
		return &recConn{c: c, rec: rec}, nil
	}
	handle := func(ctx context.Context, conn transport.StreamConn) {
		var rec *TCPConnRec
		var inner transport.StreamConn = conn
		switch v := conn.(type) {
		case *recConn:
			rec = v.rec
		case *rawTagged:
			rec = v.rec
			inner = v.TCPConn
		}
		rig.active.Add(1)
		if o.Tee != nil {
			rec.tee = o.Tee.AddOpenTCPConnection(inner)
		}
		rig.Handler.Handle(ctx, inner, rec)
		rec.mu.Lock()
		rec.Returned = time.Now()
		rec.mu.Unlock()
		rig.lastReturn.Store(time.Now().UnixNano())
		rig.active.Add(-1)
		close(rec.done)
	}
	go func() {
		service.StreamServe(accept, handle)
		rig.serveReturned.Store(time.Now().UnixNano())
		close(rig.done)
	}()
	return rig
}

// rawTagged carries the record alongside the raw conn until the handler unwraps it.
type rawTagged struct {
	*net.TCPConn
	rec *TCPConnRec
}

// Rec returns the server-side record of the connection whose client address is remote.
func (r *TCPRig) Rec(remote string, within time.Duration) *TCPConnRec {
	deadline := time.Now().Add(within)
	for {
		r.mu.Lock()
		rec := r.conns[remote]
		r.mu.Unlock()
		if rec != nil || time.Now().After(deadline) {
			return rec
		}
		time.Sleep(2 * time.Millisecond)
	}
}

// WaitDone waits until the handler of that connection has returned.
func (r *TCPRig) WaitDone(remote string, within time.Duration) (*TCPConnRec, bool) {
	rec := r.Rec(remote, within)
	if rec == nil {
		return nil, false
	}
	select {
	case <-rec.done:
		return rec, true
	case <-time.After(within):
		return rec, false
	}
}

func (r *TCPRig) All() []*TCPConnRec {
	r.mu.Lock()
	defer r.mu.Unlock()
	return append([]*TCPConnRec(nil), r.order...)
}

// Close closes the listener and waits for StreamServe to return.
func (r *TCPRig) Close(within time.Duration) bool {
	r.closer.Close()
	select {
	case <-r.done:
		return true
	case <-time.After(within):
		return false
	}
}

func (r *TCPRig) Addr4() string { return fmt.Sprintf("203.0.113.10:%d", r.Port) }
func (r *TCPRig) Addr6() string { return fmt.Sprintf("[2001:db8:5e::10]:%d", r.Port) }

// ---------- target hub ----------

// TargetConn is what a target script gets.
type TargetConn struct {
	*net.TCPConn
	Accepted time.Time
}

// TargetHub listens on the wildcard address of one port. Because every address is local in
// the lab, the destination IP the server dialled identifies the case (LocalAddr of the
// accepted connection), even for connections that carry no payload.
type TargetHub struct {
	Ln      *net.TCPListener
	Port    int
	mu      sync.Mutex
	scripts map[string]func(*TargetConn)
	Default func(*TargetConn)
	// Unexpected records connections to addresses for which no script is registered.
	Unexpected []string
	Accepted   atomic.Int64
	// Open counts target connections whose script is still running (scripts end when the server
	// closes or resets its side).
	Open atomic.Int64
}

func StartTargetHub(port int) *TargetHub {
	ln, err := net.ListenTCP("tcp", &net.TCPAddr{Port: port})
	if err != nil {
		fatalf("target hub listen: %v", err)
	}
	h := &TargetHub{Ln: ln, Port: ln.Addr().(*net.TCPAddr).Port, scripts: map[string]func(*TargetConn){}}
	go func() {
		for {
			c, err := ln.AcceptTCP()
			if err != nil {
				return
			}
			h.Accepted.Add(1)
			ip := c.LocalAddr().(*net.TCPAddr).IP.String()
			h.mu.Lock()
			s := h.scripts[ip]
			if s == nil {
				s = h.Default
				if s == nil {
					h.Unexpected = append(h.Unexpected, c.LocalAddr().String()+" from "+c.RemoteAddr().String())
				}
			}
			h.mu.Unlock()
			if s == nil {
				c.Close()
				continue
			}
			h.Open.Add(1)
			go func() {
				defer h.Open.Add(-1)
				s(&TargetConn{TCPConn: c, Accepted: time.Now()})
			}()
		}
	}()
	return h
}

func (h *TargetHub) On(ip string, s func(*TargetConn)) {
	h.mu.Lock()
	h.scripts[net.ParseIP(ip).String()] = s
	h.mu.Unlock()
}

// SetDefault installs the script for addresses without their own script.
func (h *TargetHub) SetDefault(s func(*TargetConn)) {
	h.mu.Lock()
	h.Default = s
	h.mu.Unlock()
}

func (h *TargetHub) Off(ip string) {
	h.mu.Lock()
	delete(h.scripts, net.ParseIP(ip).String())
	h.mu.Unlock()
}

func (h *TargetHub) UnexpectedList() []string {
	h.mu.Lock()
	defer h.mu.Unlock()
	return append([]string(nil), h.Unexpected...)
}

func (h *TargetHub) Close() { h.Ln.Close() }

// caseIP4 maps a case number to a unique public IPv4 address (45.0.0.0/8 is ordinary
// allocated unicast space); caseIP6 to a unique public IPv6 address.
func caseIP4(n uint64) net.IP {
	return net.IPv4(45, byte(n>>16), byte(n>>8), byte(n))
}
func caseIP6(n uint64) net.IP {
	ip := net.ParseIP("2606:4700::")
	ip[10], ip[11], ip[12], ip[13], ip[14], ip[15] = byte(n>>40), byte(n>>32), byte(n>>24), byte(n>>16), byte(n>>8), byte(n)
	return ip
}

// ---------- client ----------

// SSClient is a Shadowsocks TCP client built on the independent codec.
type SSClient struct {
	Conn  *net.TCPConn
	Key   KeySpec
	Enc   *sscodec.StreamEncoder
	Dec   *sscodec.StreamDecoder
	Local string
	T0    time.Time    // taken before dialling
	sent  atomic.Int64 // wire bytes written
	// firstWrite is when the first write completed (unix nano): a harness client that was
	// descheduled for long between dialling and writing makes handshake-timeout cases unjudgeable
	firstWrite atomic.Int64
}

// DialSS connects to server from the given source IP (nil: kernel's choice) with a chosen salt.
func DialSS(server string, src net.IP, key KeySpec, salt []byte) (*SSClient, error) {
	d := net.Dialer{Timeout: 10 * time.Second}
	if src != nil {
		d.LocalAddr = &net.TCPAddr{IP: src}
	}
	t0 := time.Now()
	c, err := d.Dial("tcp", server)
	if err != nil {
		return nil, err
	}
	tc := c.(*net.TCPConn)
	ck := key.Codec()
	cl := &SSClient{Conn: tc, Key: key, Local: tc.LocalAddr().String(), T0: t0}
	if salt != nil {
		cl.Enc = sscodec.NewStreamEncoder(ck, salt)
	}
	cl.Dec = sscodec.NewStreamDecoder(ck, tc)
	return cl, nil
}

// SentBytes is the number of wire bytes written so far.
func (c *SSClient) SentBytes() int64 { return c.sent.Load() }

// LateBy reports whether the first write completed later than d after dialling began.
func (c *SSClient) LateBy(d time.Duration) bool {
	fw := c.firstWrite.Load()
	return fw != 0 && time.Unix(0, fw).Sub(c.T0) > d
}

func (c *SSClient) WriteRaw(b []byte) error {
	n, err := c.Conn.Write(b)
	c.firstWrite.CompareAndSwap(0, time.Now().UnixNano())
	c.sent.Add(int64(n))
	return err
}

// WriteSegmented writes b in pieces cut at the given offsets, pausing between pieces.
func (c *SSClient) WriteSegmented(b []byte, cuts []int, pause time.Duration) error {
	prev := 0
	for _, cut := range cuts {
		if cut <= prev || cut >= len(b) {
			continue
		}
		if err := c.WriteRaw(b[prev:cut]); err != nil {
			return err
		}
		prev = cut
		if pause > 0 {
			time.Sleep(pause)
		}
	}
	return c.WriteRaw(b[prev:])
}

// ReadAllPlain decrypts until EOF or error; returns plaintext, wire error.
func (c *SSClient) ReadAllPlain(deadline time.Time) ([]byte, error) {
	c.Conn.SetReadDeadline(deadline)
	var out []byte
	for {
		p, err := c.Dec.ReadChunk()
		if err != nil {
			if err == io.EOF {
				return out, nil
			}
			return out, err
		}
		out = append(out, p...)
	}
}

func randSrc4(r *rand.Rand) net.IP {
	return net.IPv4(198, 51, 100, byte(1+r.Intn(250)))
}
