package props

import (
	"bytes"
	"fmt"
	"math/rand"
	"net"
	"sort"
	"time"

	"verifharness/lab"
	"verifharness/sscodec"
	"verifharness/vk"
)

// C04: UDP associations give each client one stable, private outbound socket.
//
// Event log: every datagram a target receives is stamped with its source (the proxy's
// outbound address); every datagram sent to an outbound address by targets and third
// parties carries a unique id; clients record what they receive.
//   - within an association epoch a client has exactly one outbound address;
//   - the map client -> outbound address is injective among concurrently live associations;
//   - a datagram sent to outbound address A is received by exactly the owner of A;
//   - associations appear only after an authenticated datagram with an allowed destination.

func c04Phase(c *vk.Ctx, r *rand.Rand, natTimeout time.Duration, expiry bool) bool {
	keys := RandKeys(r, 4+r.Intn(4), nil, 0.1)
	w := newC03World(c, r, keys, natTimeout)
	defer w.close()
	if expiry {
		// slow reaper: the timeout is noticed 200 ms late, so datagrams sent right after the
		// deadline find the expired association still in the table
		w.rig.Nat.mu.Lock()
		w.rig.Nat.OnNew = func(s *NatSock) { s.DelayTimeout = 200 * time.Millisecond }
		w.rig.Nat.mu.Unlock()
	}
	dns, err := lab.StartDNS()
	if err != nil {
		fatalf("dns: %v", err)
	}
	defer dns.Close()
	dns.SetScript(func(name string, qtype uint16, nth int) lab.DNSAnswer {
		switch name {
		case "private.c04.lab":
			return lab.DNSAnswer{IPs: []net.IP{net.IPv4(10, 9, 8, 7), net.ParseIP("fd00::7")}}
		case "loopback.c04.lab":
			return lab.DNSAnswer{IPs: []net.IP{net.IPv4(127, 0, 0, 1), net.IPv6loopback}}
		}
		return lab.DNSAnswer{RCode: 3}
	})
	tp4, err1 := NewUDPEnd(net.IPv4(45, 67, byte(c.Batch), 9).To4(), 0) // third parties: never contacted by anyone
	tp6, err2 := NewUDPEnd(net.ParseIP("2606:4700::67:9"), 0)
	if err1 != nil || err2 != nil {
		fatalf("third party sockets: %v %v", err1, err2)
	}
	defer tp4.Close()
	defer tp6.Close()
	fc, _ := newUDPClient(net.IPv4(198, 51, 100, 251).To4(), 0, keys[0])
	defer fc.Close()

	// clients: same IP different ports, different IPs, different keys, same key
	M := c.N(8, 20)
	var clients []*udpClient
	sharedIP := net.IPv4(198, 51, 100, byte(10+r.Intn(100))).To4()
	for i := 0; i < M; i++ {
		ip := sharedIP
		switch i % 3 {
		case 1:
			ip = net.IPv4(198, 51, 100, byte(120+i)).To4()
		case 2:
			ip = net.ParseIP(fmt.Sprintf("2001:db8:c4::%x", 1+i))
		}
		k := keys[r.Intn(len(keys))]
		if i%4 == 0 {
			k = keys[0] // several clients under one key
		}
		cl, err := newUDPClient(ip, 0, k)
		if err != nil {
			fatalf("client: %v", err)
		}
		defer cl.Close()
		clients = append(clients, cl)
	}
	serverFor := func(cl *udpClient) *net.UDPAddr {
		if cl.Addr.IP.To4() == nil {
			return w.rig.Addr6()
		}
		return w.rig.Addr4()
	}
	// --- creation only by authenticated datagrams with an allowed destination ---
	for _, cl := range clients {
		if r.Intn(2) == 0 {
			continue
		}
		k := cl.Key
		ss := k.Codec().C.SaltSize
		var pkt []byte
		class := ""
		switch r.Intn(6) {
		case 4:
			pkt, class = ssUDP(k, randBytes(r, ss), sscodec.AddrDomain("private.c04.lab", 7001), mkUDPPayload(nextID(c.Batch), 0, 0, 20)), "dest-hostname-resolving-to-private"
		case 5:
			pkt, class = ssUDP(k, randBytes(r, ss), sscodec.AddrDomain("loopback.c04.lab", 7001), mkUDPPayload(nextID(c.Batch), 0, 0, 20)), "dest-hostname-resolving-to-loopback"
		case 0:
			pkt, class = randBytes(r, 60+r.Intn(100)), "unauthenticated"
		case 1:
			pkt, class = ssUDP(k, randBytes(r, ss), append([]byte{1, 10, byte(r.Intn(256)), 1, 1}, 0x1b, 0x59), mkUDPPayload(nextID(c.Batch), 0, 0, 20)), "dest-rfc1918"
		case 2:
			pkt, class = ssUDP(k, randBytes(r, ss), append([]byte{1, 127, 0, 0, 1}, 0x1b, 0x59), mkUDPPayload(nextID(c.Batch), 0, 0, 20)), "dest-loopback"
		default:
			pkt, class = ssUDP(k, randBytes(r, ss), []byte{9, 9, 9}, nil), "bad-address"
		}
		nat := len(w.rig.Nat.All())
		cl.Send(pkt, serverFor(cl))
		if !w.fence(c, r, fc) {
			return false
		}
		c.Eval("creation|" + class)
		extra := len(w.rig.Nat.All()) - nat
		if len(w.rig.Rec.ByClient(cl.Addr.String())) != 0 || (extra > 0 && !(extra == 1 && nat == 0)) {
			c.Violation("C04/association-created-without-authenticated-allowed-datagram", map[string]any{"class": class, "client": cl.Addr.String(), "new_outbound_sockets": extra})
			return false
		}
		c.Count("no_association_for_rejected_first_datagram", 1)
	}

	// --- interleaved traffic ---
	type sentRec struct {
		client int
		id     uint64
		tgt    *udpTarget
		at     time.Time
	}
	var sent []sentRec
	rounds := c.N(6, 12)
	for round := 0; round < rounds; round++ {
		order := r.Perm(M)
		for _, ci := range order {
			cl := clients[ci]
			for j := 0; j < 1+r.Intn(3); j++ {
				tgt := w.targets[r.Intn(len(w.targets))]
				id := nextID(c.Batch)
				cl.Send(ssUDP(cl.Key, randBytes(r, cl.Key.Codec().C.SaltSize), tgt.addr(), mkUDPPayload(id, r.Intn(2), 30+r.Intn(200), 20+r.Intn(300))), serverFor(cl))
				sent = append(sent, sentRec{ci, id, tgt, time.Now()})
			}
		}
		if expiry && round%2 == 1 {
			// idle until just after the deadline, then two more datagrams per client inside the
			// slow-reaper window, then idle until everything has been reaped
			time.Sleep(natTimeout + 40*time.Millisecond)
			for rep := 0; rep < 2; rep++ {
				for ci, cl := range clients {
					tgt := w.targets[r.Intn(len(w.targets))]
					id := nextID(c.Batch)
					cl.Send(ssUDP(cl.Key, randBytes(r, cl.Key.Codec().C.SaltSize), tgt.addr(), mkUDPPayload(id, 0, 0, 40)), serverFor(cl))
					sent = append(sent, sentRec{ci, id, tgt, time.Now()})
				}
				time.Sleep(30 * time.Millisecond)
			}
			time.Sleep(natTimeout + 500*time.Millisecond)
		}
	}
	if !w.fence(c, r, fc) {
		return false
	}
	// every datagram arrived; collect source addresses per client
	type obs struct {
		src string
		at  time.Time
	}
	perClient := map[int][]obs{}
	for _, s := range sent {
		g, ok := s.tgt.waitID(s.id, udpB)
		if !ok {
			if d := c04KernelDrops(w.rig.Port, s.tgt.Addr.Port); d > 0 {
				c.Inconclusive(fmt.Sprintf("stable phase: a datagram is missing and the kernel dropped %d datagrams at the listening or target socket (receive queue overflow on a loaded machine)", d))
				return true
			}
			c.Violation("C04/valid-datagram-not-forwarded", map[string]any{"client": clients[s.client].Addr.String(), "target": s.tgt.Name, "kernel_drops": 0})
			return false
		}
		// In the lab every address is local, so the kernel picks the source IP of the proxy's
		// wildcard outbound socket per destination; the socket (= its port, unique among
		// wildcard sockets) is what identifies the proxy's source address.
		_, port, _ := net.SplitHostPort(g.From)
		perClient[s.client] = append(perClient[s.client], obs{port, g.T})
	}
	owner := map[string]int{} // outbound address -> client (for addresses that may be live now)
	for ci, os := range perClient {
		fam := "v4"
		if clients[ci].Addr.IP.To4() == nil {
			fam = "v6"
		}
		c.Eval(fmt.Sprintf("client|%s|shared-ip=%v|key-shared=%v|expiry=%v|datagrams=%s", fam, ci%3 == 0, ci%4 == 0, expiry, sizeBucket(len(os))))
		// association epochs of this client from the recorder
		as := w.rig.Rec.ByClient(clients[ci].Addr.String())
		type epoch struct {
			from, to time.Time
			srcs     map[string]bool
		}
		var eps []*epoch
		for _, a := range as {
			sn := a.Snap()
			e := &epoch{from: sn.Added, to: time.Now().Add(time.Hour), srcs: map[string]bool{}}
			if len(sn.Removed) > 0 {
				e.to = sn.Removed[0]
			}
			eps = append(eps, e)
		}
		// associations of one client never overlap: a new one appears only after the old one was removed
		for i := 0; i+1 < len(as); i++ {
			a, b := as[i].Snap(), as[i+1].Snap()
			if len(a.Removed) == 0 || b.Added.Before(a.Removed[0]) {
				c.Violation("C04/two-live-associations-for-one-client", map[string]any{"client": clients[ci].Addr.String(), "first_removed": fmt.Sprint(a.Removed), "second_added": b.Added.String()})
				return false
			}
		}
		sort.Slice(os, func(i, j int) bool { return os[i].at.Before(os[j].at) })
		for _, o := range os {
			// the datagram was forwarded during exactly the epoch whose [added, removed] contains its arrival
			// (removed is stamped before the entry leaves the table, so allow the last epoch that started before it)
			var e *epoch
			for _, cand := range eps {
				if !cand.from.After(o.at) {
					e = cand
				}
			}
			if e == nil {
				c.Violation("C04/datagram-forwarded-without-association", map[string]any{"client": clients[ci].Addr.String()})
				return false
			}
			e.srcs[o.src] = true
		}
		for _, e := range eps {
			if len(e.srcs) > 1 {
				srcs := []string{}
				for s := range e.srcs {
					srcs = append(srcs, s)
				}
				c.Violation("C04/one-client-several-outbound-addresses-in-one-association", map[string]any{"client": clients[ci].Addr.String(), "outbound": srcs})
				return false
			}
		}
		if !expiry {
			if len(as) != 1 {
				c.Violation("C04/association-count-while-alive", map[string]any{"client": clients[ci].Addr.String(), "associations": len(as)})
				return false
			}
			for s := range eps[0].srcs {
				if prev, dup := owner[s]; dup && prev != ci {
					c.Violation("C04/two-clients-share-an-outbound-address", map[string]any{"outbound": s, "clients": []string{clients[prev].Addr.String(), clients[ci].Addr.String()}})
					return false
				}
				owner[s] = ci
			}
		}
		c.Count("client_epochs_checked", int64(len(eps)))
	}
	if expiry {
		// one client alone on the listener: its association expires, and the very next datagram the
		// server handles is from that same client again - a new association, a new outbound address
		solo, err := newUDPClient(net.IPv4(198, 51, 100, 240).To4(), 0, keys[r.Intn(len(keys))])
		if err == nil {
			var ports []string
			for gen := 0; gen < 3; gen++ {
				id := nextID(c.Batch)
				solo.Send(ssUDP(solo.Key, randBytes(r, solo.Key.Codec().C.SaltSize), w.targets[0].addr(), mkUDPPayload(id, 1, 16, 24)), w.rig.Addr4())
				g, ok := w.targets[0].waitID(id, udpB)
				_, rep := solo.waitReply(solo.Key, id|1<<56, udpB)
				c.Eval("expiry|solo-client|generation")
				if !ok || !rep {
					c.Violation("C04/valid-datagram-not-forwarded", map[string]any{"client": solo.Addr.String(), "phase": "a client alone on the listener, after its association expired", "generation": gen, "forwarded": ok, "reply_delivered": rep})
					solo.Close()
					return false
				}
				_, p, _ := net.SplitHostPort(g.From)
				ports = append(ports, p)
				// wait for the expiry of this association (timeout + slow reaper), nobody else sends
				as := w.rig.Rec.ByClient(solo.Addr.String())
				for dl := time.Now().Add(natTimeout + udpB); len(as) > 0 && len(as[len(as)-1].Snap().Removed) == 0 && time.Now().Before(dl); {
					time.Sleep(5 * time.Millisecond)
				}
			}
			solo.Close()
			c.Count("solo_client_generations", int64(len(ports)))
		}
		c.Count("expiry_phases", 1)
		c.Eval(fmt.Sprintf("phase|expiry|clients=%d", M))
		return true
	}
	// --- unsolicited datagrams to every outbound address, from targets and from third parties ---
	type probe struct {
		id      uint64
		owner   int
		payload []byte
		from    string
		v6      bool
	}
	var probes []probe
	for src, ci := range owner {
		ua, _ := net.ResolveUDPAddr("udp", "127.0.0.1:"+src)
		// the proxy's outbound sockets are dual-stack wildcards: address them by a local address of either family
		// (targets 0 and 1 are two ports of one host: the sender is an address AND a port)
		for _, sender := range []*UDPEnd{tp4, tp6, w.targets[0].UDPEnd, w.targets[1].UDPEnd, w.targets[2].UDPEnd, w.targets[3].UDPEnd, w.targets[1].UDPEnd, w.targets[0].UDPEnd} {
			id := nextID(c.Batch)
			p := replyPayload(id, 1, 20+r.Intn(300))
			dst := &net.UDPAddr{Port: ua.Port}
			if sender.Addr.IP.To4() != nil {
				dst.IP = net.IPv4(203, 0, 113, 77)
			} else {
				dst.IP = net.ParseIP("2001:db8:77::1")
			}
			sender.Send(p, dst)
			probes = append(probes, probe{id | 1<<56, ci, p, sender.Addr.String(), sender.Addr.IP.To4() == nil})
		}
	}
	// a client that also sends datagrams under ANOTHER valid key keeps its one association and its
	// one outbound address (those datagrams are not forwarded: the association belongs to its key)
	for src, ci := range owner {
		if ci%2 == 1 || len(keys) < 2 {
			continue
		}
		cl := clients[ci]
		var other KeySpec
		for _, k := range keys {
			if k.Material() != cl.Key.Material() {
				other = k
			}
		}
		if other.ID == "" {
			continue
		}
		tgt := w.targets[0]
		oid, nid := nextID(c.Batch), nextID(c.Batch)
		cl.Send(ssUDP(other, randBytes(r, other.Codec().C.SaltSize), tgt.addr(), mkUDPPayload(oid, 0, 0, 24)), serverFor(cl))
		cl.Send(ssUDP(cl.Key, randBytes(r, cl.Key.Codec().C.SaltSize), tgt.addr(), mkUDPPayload(nid, 0, 0, 24)), serverFor(cl))
		g, ok := tgt.waitID(nid, udpB)
		c.Eval("stable|second-key-from-same-client-address")
		if !ok {
			c.Violation("C04/valid-datagram-not-forwarded", map[string]any{"client": cl.Addr.String(), "after": "a datagram under another key"})
			return false
		}
		_, port, _ := net.SplitHostPort(g.From)
		if port != src || len(tgt.findID(oid)) != 0 || len(w.rig.Rec.ByClient(cl.Addr.String())) != 1 {
			c.Violation("C04/one-client-several-outbound-addresses-in-one-association", map[string]any{"client": cl.Addr.String(), "outbound_before": src, "outbound_after": port, "other_key_datagram_forwarded": len(tgt.findID(oid)) != 0, "associations": len(w.rig.Rec.ByClient(cl.Addr.String()))})
			return false
		}
		c.Count("second_key_same_client_checked", 1)
	}
	// an EMPTY datagram to each outbound address is a datagram too: its owner receives a reply
	// with the sender's address and no payload
	emptyFrom := tp4.Addr.String()
	for src := range owner {
		ua, _ := net.ResolveUDPAddr("udp", "203.0.113.77:"+src)
		tp4.Send([]byte{}, ua)
	}
	if !w.fence(c, r, fc) {
		return false
	}
	for _, ci := range owner {
		cl := clients[ci]
		deadline := time.Now().Add(udpB)
		found := false
		for !found && time.Now().Before(deadline) {
			for _, g := range cl.Snap() {
				if d, err := decodeReply(cl.Key, g.Data); err == nil && len(d.Payload) == 0 && net.JoinHostPort(d.Host, fmt.Sprint(d.Port)) == emptyFrom {
					found = true
				}
			}
			if !found {
				time.Sleep(time.Millisecond)
			}
		}
		if !found {
			c.Violation("C04/empty-datagram-to-outbound-address-not-delivered-to-its-client", map[string]any{"owner": cl.Addr.String(), "sender": emptyFrom})
			return false
		}
		c.Count("empty_unsolicited_delivered", 1)
	}
	for _, p := range probes {
		d, ok := clients[p.owner].waitReply(clients[p.owner].Key, p.id, udpB)
		if !ok {
			c.Violation("C04/datagram-to-outbound-address-not-delivered-to-its-client", map[string]any{"sender": p.from, "owner": clients[p.owner].Addr.String()})
			return false
		}
		if !bytes.Equal(d.Payload, p.payload) || net.JoinHostPort(d.Host, fmt.Sprint(d.Port)) != p.from {
			c.Violation("C04/unsolicited-datagram-altered", map[string]any{"got_from": net.JoinHostPort(d.Host, fmt.Sprint(d.Port)), "sender": p.from})
			return false
		}
		// nobody else got it
		for ci, cl := range clients {
			if ci == p.owner {
				continue
			}
			for _, g := range cl.Snap() {
				if dd, err := decodeReply(cl.Key, g.Data); err == nil && len(dd.Payload) >= 8 && bytes.Equal(dd.Payload, p.payload) {
					c.Violation("C04/datagram-delivered-to-another-client", map[string]any{"owner": clients[p.owner].Addr.String(), "also": cl.Addr.String()})
					return false
				}
				// a foreign reply could also arrive under the owner's key: any copy of these bytes is a leak
				if dd, err := decodeReply(clients[p.owner].Key, g.Data); err == nil && bytes.Equal(dd.Payload, p.payload) {
					c.Violation("C04/datagram-delivered-to-another-client", map[string]any{"owner": clients[p.owner].Addr.String(), "also": cl.Addr.String()})
					return false
				}
			}
		}
		c.Count("unsolicited_delivered_to_owner_only", 1)
	}
	// young associations (exactly ONE datagram sent, to a non-DNS port): the first datagram to come
	// back is a stray one from port 53 of a host the client never addressed; then the target answers
	// with a datagram too large to be relayed (it no longer fits once encrypted), then with a small
	// one. The association is alive all along: the outbound address stays, the datagrams that fit
	// are delivered.
	for yi := 0; yi < 3; yi++ {
		k := keys[r.Intn(len(keys))]
		cl, err := newUDPClient(net.IPv4(198, 51, 100, byte(220+yi)).To4(), 0, k)
		if err != nil {
			continue
		}
		stray, err := NewUDPEnd(net.IPv4(45, 66, byte(c.Batch), byte(53+yi)).To4(), 53)
		if err != nil {
			cl.Close()
			c.Note("cannot bind a port-53 sender: %v", err)
			continue
		}
		tgt := w.targets[0]
		if yi == 2 {
			// this client's very first datagram cannot be sent on (destination port 0: the write to the
			// target fails); it is authenticated and its destination allowed, so the association exists
			cl.Send(ssUDP(k, randBytes(r, k.Codec().C.SaltSize), sscodec.AddrIP(tgt.Addr.IP, 0, false), mkUDPPayload(nextID(c.Batch), 0, 0, 24)), w.rig.Addr4())
			time.Sleep(20 * time.Millisecond)
		}
		id := nextID(c.Batch)
		cl.Send(ssUDP(k, randBytes(r, k.Codec().C.SaltSize), tgt.addr(), mkUDPPayload(id, 0, 0, 24)), w.rig.Addr4())
		g, ok := tgt.waitID(id, udpB)
		if !ok {
			if d := c04KernelDrops(w.rig.Port, tgt.Addr.Port); d > 0 {
				c.Inconclusive(fmt.Sprintf("young association: a datagram is missing and the kernel dropped %d datagrams at the listening or target socket", d))
				return true
			}
			c.Violation("C04/valid-datagram-not-forwarded", map[string]any{"client": cl.Addr.String(), "phase": "young association", "kernel_drops": 0})
			return false
		}
		_, src, _ := net.SplitHostPort(g.From)
		ua, _ := net.ResolveUDPAddr("udp", "203.0.113.77:"+src)
		steps := []struct {
			what   string
			sender *UDPEnd
			size   int
			must   bool
		}{
			{"stray datagram from port 53 of a third party (first datagram the association receives)", stray, 40, true},
			{"small datagram from the addressed target", tgt.UDPEnd, 60, true},
			{"datagram from the target that cannot fit once encrypted", tgt.UDPEnd, 65453 + r.Intn(17), false},
			{"small datagram from the target after the oversized one", tgt.UDPEnd, 80, true},
		}
		for si, st := range steps {
			pid := nextID(c.Batch)
			p := replyPayload(pid, 1, st.size)
			st.sender.Send(p, ua)
			c.Eval(fmt.Sprintf("young-association|step=%d", si))
			if !st.must {
				time.Sleep(20 * time.Millisecond)
				continue
			}
			d, ok := cl.waitReply(k, pid|1<<56, udpB)
			if !ok {
				c.Violation("C04/datagram-to-outbound-address-not-delivered-to-its-client", map[string]any{"owner": cl.Addr.String(), "sender": st.sender.Addr.String(), "what": st.what, "history": "one client datagram to " + tgt.Addr.String() + ", then: " + steps[0].what})
				return false
			}
			if !bytes.Equal(d.Payload, p) || net.JoinHostPort(d.Host, fmt.Sprint(d.Port)) != st.sender.Addr.String() {
				c.Violation("C04/unsolicited-datagram-altered", map[string]any{"got_from": net.JoinHostPort(d.Host, fmt.Sprint(d.Port)), "sender": st.sender.Addr.String()})
				return false
			}
		}
		// a datagram whose write to the target fails (destination port 0) changes nothing either
		cl.Send(ssUDP(k, randBytes(r, k.Codec().C.SaltSize), sscodec.AddrIP(tgt.Addr.IP, 0, false), mkUDPPayload(nextID(c.Batch), 0, 0, 24)), w.rig.Addr4())
		// nor do datagrams that carry the client's address but do not authenticate (spoofed, damaged in
		// transit, or sent under a key that is gone): five in a row, garbage and a bit-flipped valid one
		for i := 0; i < 5; i++ {
			bad := randBytes(r, 40+r.Intn(200))
			if i%2 == 1 {
				bad = ssUDP(k, randBytes(r, k.Codec().C.SaltSize), tgt.addr(), mkUDPPayload(nextID(c.Batch), 0, 0, 24))
				bad[len(bad)-1-r.Intn(len(bad)-1)] ^= 0x04
			}
			cl.Send(bad, w.rig.Addr4())
		}
		c.Count("unauthenticated_datagrams_on_live_associations", 5)
		time.Sleep(20 * time.Millisecond)
		// and the client still leaves from the same outbound address
		id2 := nextID(c.Batch)
		cl.Send(ssUDP(k, randBytes(r, k.Codec().C.SaltSize), tgt.addr(), mkUDPPayload(id2, 0, 0, 24)), w.rig.Addr4())
		g2, ok := tgt.waitID(id2, udpB)
		if !ok {
			if d := c04KernelDrops(w.rig.Port, tgt.Addr.Port); d > 0 {
				c.Inconclusive(fmt.Sprintf("young association, second datagram: missing and the kernel dropped %d datagrams at the listening or target socket", d))
				return true
			}
			c.Violation("C04/valid-datagram-not-forwarded", map[string]any{"client": cl.Addr.String(), "phase": "young association, second datagram", "kernel_drops": 0})
			return false
		}
		if _, src2, _ := net.SplitHostPort(g2.From); src2 != src || len(w.rig.Rec.ByClient(cl.Addr.String())) != 1 {
			c.Violation("C04/one-client-several-outbound-addresses-in-one-association", map[string]any{"client": cl.Addr.String(), "outbound_before": src, "outbound_after": src2, "associations": len(w.rig.Rec.ByClient(cl.Addr.String())), "history": "stray port-53 datagram, an oversized reply, a datagram to port 0 (failing write) and five datagrams that fail authentication in between (association timeout 30 s not reached)"})
			return false
		}
		c.Count("young_associations_survive_strays_and_oversized_replies", 1)
		stray.Close()
		cl.Close()
	}
	// two clients with the same link-local IP and port on different interfaces (they differ only
	// by zone) are different client addresses: two associations, two outbound sockets
	if a0, a1, err := lab.LinkLocal(); err == nil {
		zport := 30000 + r.Intn(1000)
		za, errA := net.ListenUDP("udp6", &net.UDPAddr{IP: net.ParseIP("fe80::c4"), Port: zport, Zone: "vlab0"})
		zb, errB := net.ListenUDP("udp6", &net.UDPAddr{IP: net.ParseIP("fe80::c4"), Port: zport, Zone: "vlab1"})
		if errA == nil && errB == nil {
			kz := keys[r.Intn(len(keys))] // the same access key for both
			tgt := w.targets[0]
			idA, idB := nextID(c.Batch), nextID(c.Batch)
			za.WriteToUDP(ssUDP(kz, randBytes(r, kz.Codec().C.SaltSize), tgt.addr(), mkUDPPayload(idA, 0, 0, 24)), &net.UDPAddr{IP: a1.IP, Zone: "vlab0", Port: w.rig.Port})
			zb.WriteToUDP(ssUDP(kz, randBytes(r, kz.Codec().C.SaltSize), tgt.addr(), mkUDPPayload(idB, 0, 0, 24)), &net.UDPAddr{IP: a0.IP, Zone: "vlab1", Port: w.rig.Port})
			gA, okA := tgt.waitID(idA, udpB)
			gB, okB := tgt.waitID(idB, udpB)
			c.Eval("zoned-clients|same-ip-and-port|different-interface")
			if !okA || !okB {
				c.Violation("C04/valid-datagram-not-forwarded", map[string]any{"clients": "zoned link-local pair", "a": okA, "b": okB})
				return false
			}
			_, pA, _ := net.SplitHostPort(gA.From)
			_, pB, _ := net.SplitHostPort(gB.From)
			if pA == pB {
				c.Violation("C04/two-clients-share-an-outbound-address", map[string]any{"outbound_port": pA, "clients": []string{za.LocalAddr().String(), zb.LocalAddr().String()}})
				return false
			}
			// the same two clients again: each stays in its own association, on its own outbound address
			idA2, idB2 := nextID(c.Batch), nextID(c.Batch)
			za.WriteToUDP(ssUDP(kz, randBytes(r, kz.Codec().C.SaltSize), tgt.addr(), mkUDPPayload(idA2, 0, 0, 24)), &net.UDPAddr{IP: a1.IP, Zone: "vlab0", Port: w.rig.Port})
			zb.WriteToUDP(ssUDP(kz, randBytes(r, kz.Codec().C.SaltSize), tgt.addr(), mkUDPPayload(idB2, 0, 0, 24)), &net.UDPAddr{IP: a0.IP, Zone: "vlab1", Port: w.rig.Port})
			gA2, okA2 := tgt.waitID(idA2, udpB)
			gB2, okB2 := tgt.waitID(idB2, udpB)
			c.Eval("zoned-clients|second-datagram")
			if !okA2 || !okB2 {
				c.Violation("C04/valid-datagram-not-forwarded", map[string]any{"clients": "zoned link-local pair, second datagram", "a": okA2, "b": okB2})
				return false
			}
			_, pA2, _ := net.SplitHostPort(gA2.From)
			_, pB2, _ := net.SplitHostPort(gB2.From)
			if pA2 != pA || pB2 != pB {
				c.Violation("C04/one-client-several-outbound-addresses-in-one-association", map[string]any{"clients": "zoned link-local pair", "outbound_first": []string{pA, pB}, "outbound_second": []string{pA2, pB2}, "history": "two datagrams of each client right after one another (association timeout not reached)"})
				return false
			}
			c.Count("zoned_client_pairs_separated", 1)
		} else {
			c.Note("zoned client pair could not be bound: %v %v", errA, errB)
		}
		if za != nil {
			za.Close()
		}
		if zb != nil {
			zb.Close()
		}
	}
	c.Count("stable_phases", 1)
	c.Count("max_concurrent_associations", int64(len(owner)))
	c.Eval(fmt.Sprintf("phase|stable|clients=%d|unsolicited=%d", M, len(probes)))
	if c.Batch == 0 {
		c.Sample(map[string]any{"clients": M, "outbound_addresses": len(owner), "unsolicited_probes": len(probes), "datagrams": len(sent)})
	}
	return true
}

// c04Process: the real binary (listeners shared through the listener manager, as in
// production): interleaved clients each get exactly their own replies.
func c04Process(c *vk.Ctx, r *rand.Rand) bool {
	keys := RandKeys(r, 3, nil, 0)
	port := 15000 + c.Batch*10
	cf := ConfSpec{Services: []SvcSpec{{Listeners: []LnSpec{{"udp", fmt.Sprintf("203.0.113.80:%d", port)}, {"udp", fmt.Sprintf("[2001:db8:80::1]:%d", port)}}, Keys: keys}}}
	srv, err := StartServer(c.RunDir, cf, ServerOpts{UDPTimeout: 20 * time.Second})
	if err != nil {
		c.Violation("C04/process/server-does-not-start", err.Error())
		if srv != nil {
			srv.Stop()
		}
		return false
	}
	defer srv.Stop()
	tgt, err := startUDPTarget("echo", net.IPv4(45, 74, byte(c.Batch), 1).To4(), 7001)
	if err != nil {
		fatalf("target: %v", err)
	}
	defer tgt.Stop()
	M := 4 + r.Intn(6)
	var clients []*udpClient
	for i := 0; i < M; i++ {
		ip := net.IPv4(198, 51, 100, byte(1+i)).To4()
		if i%3 == 2 {
			ip = net.ParseIP(fmt.Sprintf("2001:db8:c4::%x", 1+i))
		}
		cl, err := newUDPClient(ip, 0, keys[r.Intn(len(keys))])
		if err != nil {
			fatalf("client: %v", err)
		}
		defer cl.Close()
		clients = append(clients, cl)
	}
	server4, _ := net.ResolveUDPAddr("udp", fmt.Sprintf("203.0.113.80:%d", port))
	server6, _ := net.ResolveUDPAddr("udp", fmt.Sprintf("[2001:db8:80::1]:%d", port))
	type exp struct {
		client int
		rid    uint64
	}
	var expects []exp
	tgt.SetHold(true) // replies are released later, after other clients have sent
	for round := 0; round < c.N(6, 20); round++ {
		for _, ci := range r.Perm(M) {
			cl := clients[ci]
			id := nextID(c.Batch)
			server := server4
			if cl.Addr.IP.To4() == nil {
				server = server6
			}
			cl.Send(ssUDP(cl.Key, randBytes(r, cl.Key.Codec().C.SaltSize), tgt.addr(), mkUDPPayload(id, 1, 20+r.Intn(100), 30)), server)
			if _, ok := tgt.waitID(id, udpB); !ok {
				c.Violation("C04/process/valid-datagram-not-forwarded", map[string]any{"client": cl.Addr.String()})
				return false
			}
			expects = append(expects, exp{ci, id | 1<<56})
		}
		if round%2 == 1 {
			tgt.SetHold(false) // the answers to the last two rounds go out now, all clients having sent since
			tgt.SetHold(true)
		}
	}
	tgt.SetHold(false)
	for _, e := range expects {
		if _, ok := clients[e.client].waitReply(clients[e.client].Key, e.rid, udpB); !ok {
			c.Violation("C04/process/reply-not-delivered-to-its-client", map[string]any{"client": clients[e.client].Addr.String()})
			return false
		}
	}
	// nothing else arrived anywhere: every datagram a client holds is one of its own replies
	mine := map[int]map[uint64]bool{}
	for _, e := range expects {
		if mine[e.client] == nil {
			mine[e.client] = map[uint64]bool{}
		}
		mine[e.client][e.rid] = true
	}
	for ci, cl := range clients {
		for _, g := range cl.Snap() {
			d, err := decodeReply(cl.Key, g.Data)
			if err != nil || len(d.Payload) < 8 || !mine[ci][u64(d.Payload[:8])] {
				c.Violation("C04/process/client-received-a-datagram-that-is-not-its-own", map[string]any{"client": cl.Addr.String(), "decrypts_under_own_key": err == nil})
				return false
			}
		}
		if len(cl.Snap()) != len(mine[ci]) {
			c.Violation("C04/process/reply-count", map[string]any{"client": cl.Addr.String(), "received": len(cl.Snap()), "expected": len(mine[ci])})
			return false
		}
	}
	c.Count("process_interleaved_replies_delivered", int64(len(expects)))
	c.Eval(fmt.Sprintf("process|interleaved-clients=%d", M))
	return true
}

func c04Run(c *vk.Ctx) {
	lab.MustSetup(c.RunDir)
	r := c.Rng
	for i := 0; i < c.N(2, 6); i++ {
		if !c04Phase(c, r, 30*time.Second, false) {
			return
		}
		if !c04Phase(c, r, 300*time.Millisecond, true) {
			return
		}
	}
	if !c03TwoListeners(c, r, "C04") {
		return
	}
	c04Process(c, r)
}

func init() {
	vk.Register(&vk.Spec{
		ID:          "C04",
		Level:       "exploration",
		Rule:        "stable phase (timeout 30 s): 8..20 clients (one IP/different ports, different IPs incl. IPv6, shared and different keys) x 4 targets interleaved in random order for 6..12 rounds, then every outbound address learnt receives unsolicited datagrams with unique ids from two targets and two third-party sockets over IPv4 and IPv6; expiry phase (timeout 0.3 s): the same traffic with idle gaps so that associations expire and are re-created; rejected first datagrams (unauthenticated, RFC1918/loopback destination, bad address) from fresh clients; young associations (one datagram sent, then a stray datagram from port 53 of a third party, an oversized reply, a small one); one handler serving two listeners; oracle over the recorded log with association epochs from the metrics recorder",
		Assumptions: []string{"scope: one packet handler (one generation); during a reload two generations legitimately hold separate tables (C11)"},
		Batches:     func(t string) int { return map[string]int{"quick": 4, "thorough": 16}[t] },
		Parallel:    func(t string) int { return 4 },
		Timeout:     func(t string) time.Duration { return 25 * time.Minute },
		Run: func(c *vk.Ctx) {
			c.Require("stable_phases")
			c.Require("two_listener_datagrams_intact")
			c.Require("young_associations_survive_strays_and_oversized_replies")
			c.Require("expiry_phases")
			c.Require("unsolicited_delivered_to_owner_only")
			c.Require("no_association_for_rejected_first_datagram")
			c.Require("process_interleaved_replies_delivered")
			c.Require("zoned_client_pairs_separated")
			c04Run(c)
		},
	})
}

// c04KernelDrops is the kernel's drop count at the listening socket and at a target's socket: a datagram the
// kernel dropped on a full receive queue never reached the code under test, so its absence decides nothing.
func c04KernelDrops(ports ...int) int64 {
	var n int64
	for _, p := range ports {
		n += lab.UDPDrops(fmt.Sprintf("0.0.0.0:%d", p))
	}
	return n
}
