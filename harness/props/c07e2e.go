package props

import (
	"bytes"
	"fmt"
	"net"
	"sync"
	"time"

	"github.com/Jigsaw-Code/outline-ss-server/service"

	"verifharness/lab"
	"verifharness/sscodec"
	"verifharness/vk"
)

// c07EndToEnd: identical handshakes through real sockets and the real stream handler.
func c07EndToEnd(c *vk.Ctx) {
	lab.MustSetup(c.RunDir)
	r := c.Rng
	hub := StartTargetHub(0)
	defer hub.Close()
	var tmu sync.Mutex
	targetSeen := map[string]int{}
	hub.SetDefault(func(tc *TargetConn) {
		ip := tc.LocalAddr().(*net.TCPAddr).IP.String()
		tmu.Lock()
		targetSeen[ip]++
		tmu.Unlock()
		buf := make([]byte, 4096)
		tc.SetReadDeadline(time.Now().Add(10 * time.Second))
		n, _ := tc.Read(buf)
		tc.Write(buf[:n])
		tc.Close()
	})
	keys := RandKeys(r, 3, nil, 0)
	// salt sizes 16 and 24/32: with the short ones the 50 bytes read ahead reach beyond the handshake
	keys[0].Cipher = "aes-128-gcm"
	keys[1].Cipher = pick(r, []string{"aes-192-gcm", "chacha20-ietf-poly1305", "aes-256-gcm"})
	// the first key once more under another id (same cipher and secret): whichever id a handshake is
	// attributed to, the same bytes presented again - from any client address - are a replay
	keys = append(keys, KeySpec{ID: "same-material-as-" + keys[0].ID, Cipher: keys[0].Cipher, Secret: keys[0].Secret})
	N := 30
	cache := service.NewReplayCache(N)
	timeout := 800 * time.Millisecond
	// Two rigs (two "listeners"/"services") sharing one cache, as in the server process.
	rigA := StartTCPRig(keys, TCPRigOpts{Timeout: timeout, Replay: &cache})
	rigB := StartTCPRig(keys[:2], TCPRigOpts{Timeout: timeout, Replay: &cache, Raw: true})
	defer rigA.Close(5 * time.Second)
	defer rigB.Close(5 * time.Second)

	type sent struct {
		stream []byte
		key    KeySpec
		ip     net.IP
		at     int // handshake counter when first presented
	}
	var history []sent
	handshakes := 0
	rounds := c.N(10, 40)
	for round := 0; round < rounds; round++ {
		k := keys[r.Intn(2)]
		caseN := nextID(c.Batch)
		ip := caseIP4(caseN)
		payload := putU64(caseN)
		ck := k.Codec()
		salt := randBytes(r, ck.C.SaltSize)
		enc := sscodec.NewStreamEncoder(ck, salt)
		stream := enc.Encode(append(sscodec.AddrIP(ip, hub.Port, false), payload...), nil)
		K := 2 + r.Intn(5)
		c.Progress("C07 e2e round=%d K=%d key=%s", round, K, k.ID)
		type res struct {
			reply  []byte
			err    error
			local  string
			rig    *TCPRig
			closed time.Duration
		}
		results := make([]res, K)
		var wg sync.WaitGroup
		start := make(chan struct{})
		for i := 0; i < K; i++ {
			wg.Add(1)
			go func(i int) {
				defer wg.Done()
				rig := rigA
				if i%2 == 1 {
					rig = rigB // same handshake presented on the other listener
				}
				cl, err := DialSS(rig.Addr4(), randSrc4(c.SubRng("c07src", round*16+i)), k, nil)
				if err != nil {
					results[i] = res{err: err}
					return
				}
				defer cl.Conn.Close()
				<-start
				cl.WriteRaw(stream)
				reply, err := cl.ReadAllPlain(time.Now().Add(15 * time.Second))
				results[i] = res{reply: reply, err: err, local: cl.Local, rig: rig, closed: time.Since(cl.T0)}
			}(i)
		}
		time.Sleep(20 * time.Millisecond)
		close(start)
		wg.Wait()
		handshakes += K
		served := 0
		for i, rs := range results {
			if rs.err != nil && rs.rig == nil {
				c.Inconclusive(fmt.Sprintf("dial failed: %v", rs.err))
				continue
			}
			rec, ok := rs.rig.WaitDone(rs.local, 10*time.Second)
			if !ok {
				c.Violation("C07/e2e/handler-did-not-finish", fmt.Sprintf("round %d copy %d", round, i))
				continue
			}
			sn := rec.Snap()
			if bytes.Equal(rs.reply, payload) {
				served++
				if sn.Status() != "OK" {
					c.Violation("C07/e2e/served-copy-status", map[string]any{"status": sn.Status()})
				}
			} else {
				// refused copy: treated like an invalid probe
				if len(rs.reply) != 0 || sn.Writes != 0 && !rs.rig.opts.Raw {
					c.Violation("C07/e2e/refused-copy-got-bytes", map[string]any{"reply_len": len(rs.reply), "server_writes": sn.Writes})
				}
				if sn.Status() != "ERR_REPLAY_CLIENT" {
					c.Violation("C07/e2e/refused-copy-status", map[string]any{"status": sn.Status(), "seq": sn.Seq})
				}
				if len(sn.Probes) != 1 || len(sn.Auth) != 0 {
					c.Violation("C07/e2e/refused-copy-not-treated-as-probe", map[string]any{"seq": sn.Seq})
				}
				if !rs.rig.opts.Raw {
					// server-side view: one handshake deadline (accept + timeout), never restarted -
					// exactly what an invalid probe gets
					var dls []time.Time
					for _, e := range sn.ConnEvents {
						if (e.Kind == "setReadDeadline" || e.Kind == "setDeadline") && !e.DL.IsZero() {
							dls = append(dls, e.DL)
						}
					}
					if len(dls) != 1 || dls[0].Sub(sn.Accepted) < timeout || dls[0].Sub(sn.Accepted) > timeout+3*time.Second {
						c.Violation("C07/e2e/refused-copy-deadline-differs-from-an-invalid-probe's", map[string]any{"deadlines_set": len(dls), "timeout": timeout.String(), "seq": sn.Seq})
					} else {
						c.Count("e2e_refused_copies_with_probe_deadline", 1)
					}
				}
				if rs.closed < timeout {
					c.Violation("C07/e2e/refused-copy-closed-before-timeout", map[string]any{"closed_after": rs.closed.String(), "timeout": timeout.String()})
				}
			}
		}
		tmu.Lock()
		seen := targetSeen[ip.String()]
		tmu.Unlock()
		c.Eval(fmt.Sprintf("e2e|concurrent-copies=%d|%s", K, k.Cipher))
		if served != 1 || seen != 1 {
			c.Violation("C07/e2e/concurrent-copies-served", map[string]any{"copies": K, "served": served, "target_connections": seen, "round": round})
		}
		c.Count("e2e_concurrent_rounds", 1)
		history = append(history, sent{stream, k, ip, handshakes})

		// Sequential replay of an older handshake that is still within the history.
		if len(history) > 1 && r.Intn(2) == 0 {
			old := history[r.Intn(len(history))]
			dist := handshakes - old.at
			rig := rigB
			cl, err := DialSS(rig.Addr6(), nil, old.key, nil)
			if err != nil {
				c.Inconclusive("dial6 failed: " + err.Error())
				continue
			}
			replayed := old.stream
			altered := false
			if hdr := old.key.Codec().C.SaltSize + 2 + 16; r.Intn(2) == 0 && len(replayed) > hdr+4 {
				// the same handshake (key, salt, first length block) with different bytes after it: still
				// the handshake that was seen before
				replayed = append([]byte(nil), old.stream...)
				replayed[hdr+r.Intn(min(16, len(replayed)-hdr))] ^= byte(1 + r.Intn(255))
				altered = true
			}
			cl.WriteRaw(replayed)
			cl.Conn.CloseWrite()
			reply, _ := cl.ReadAllPlain(time.Now().Add(15 * time.Second))
			cl.Conn.Close()
			rec, _ := rig.WaitDone(cl.Local, 10*time.Second)
			handshakes++
			// Every presentation counts as a check, so the handshake stays fresh in the history.
			for i := range history {
				if bytes.Equal(history[i].stream, old.stream) {
					history[i].at = handshakes
				}
			}
			c.Eval(fmt.Sprintf("e2e|sequential-replay|within=%v|other-listener+ipv6", dist < N))
			if dist < N {
				tmu.Lock()
				seen := targetSeen[old.ip.String()]
				tmu.Unlock()
				st := ""
				if rec != nil {
					st = rec.Snap().Status()
				}
				if len(reply) != 0 || seen != 1 || st != "ERR_REPLAY_CLIENT" {
					c.Violation("C07/e2e/sequential-replay-accepted", map[string]any{"distance": dist, "history": N, "reply_len": len(reply), "target_connections": seen, "status": st, "bytes_after_the_handshake_altered": altered, "cipher": old.key.Cipher})
				}
				c.Count("e2e_sequential_replays_refused", 1)
				if altered {
					c.Count("e2e_replays_with_altered_continuation_refused", 1)
				}
			}
		}
	}
	// History size changed AFTER the service exists (0 -> N: the defence is switched on at run
	// time; N -> 0 -> N): from then on "the most recent N" holds for the handshakes checked since.
	for _, start := range []int{0, 50} {
		rc := service.NewReplayCache(start)
		rigR := StartTCPRig(keys, TCPRigOpts{Timeout: timeout, Replay: &rc, Raw: start != 0})
		if start != 0 {
			rc.Resize(0)
		}
		n := 20 + r.Intn(100)
		rc.Resize(n)
		k := keys[r.Intn(len(keys))]
		caseN := nextID(c.Batch)
		ip := caseIP4(caseN)
		payload := putU64(caseN)
		reply, stream, err := tcpExchange(rigR.Addr4(), randSrc4(r), k, randBytes(r, k.Codec().C.SaltSize), ip, hub.Port, payload, 15*time.Second)
		if err != nil || !bytes.Equal(reply, payload) {
			c.Violation("C07/e2e/fresh-handshake-refused", map[string]any{"phase": "after resizing the history of a running service", "err": fmt.Sprint(err)})
			rigR.Close(5 * time.Second)
			return
		}
		cl, err := DialSS(rigR.Addr4(), randSrc4(r), k, nil)
		if err == nil {
			cl.WriteRaw(stream)
			cl.Conn.CloseWrite()
			got, _ := cl.ReadAllPlain(time.Now().Add(15 * time.Second))
			cl.Conn.Close()
			rec, _ := rigR.WaitDone(cl.Local, 10*time.Second)
			tmu.Lock()
			seen := targetSeen[ip.String()]
			tmu.Unlock()
			st := ""
			if rec != nil {
				st = rec.Snap().Status()
			}
			c.Eval(fmt.Sprintf("e2e|history-resized-on-a-running-service|from=%d", start))
			if len(got) != 0 || seen != 1 || st != "ERR_REPLAY_CLIENT" {
				c.Violation("C07/e2e/sequential-replay-accepted", map[string]any{"history_when_the_service_was_created": start, "history_now": n, "reply_len": len(got), "target_connections": seen, "status": st})
				rigR.Close(5 * time.Second)
				return
			}
			c.Count("e2e_replays_refused_after_runtime_resize", 1)
		}
		rigR.Close(5 * time.Second)
	}
	if u := hub.UnexpectedList(); len(u) > 0 {
		c.Violation("C07/e2e/unexpected-target-connection", u)
	}
}
