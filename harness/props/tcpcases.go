package props

import (
	"bytes"
	"fmt"
	"io"
	"math/rand"
	"net"
	"sync"
	"syscall"
	"time"
	"unsafe"

	"verifharness/lab"
	"verifharness/sscodec"
)

const relayB = 15 * time.Second

// relayTimeout is the handshake (read) timeout of the relay rigs; slow cases pause for longer
// than this in mid-stream, in both directions, which an authenticated relay must survive.
const relayTimeout = 1500 * time.Millisecond
const slowCaseMs = 2000

// countingReader counts raw bytes read from the client socket.
type countingReader struct {
	r io.Reader
	n int64
}

func (c *countingReader) Read(b []byte) (int, error) {
	n, err := c.r.Read(b)
	c.n += int64(n)
	return n, err
}

// relayCase is one authenticated TCP exchange.
type relayCase struct {
	ID          uint64  `json:"id"`
	Key         KeySpec `json:"key"`
	AddrType    int     `json:"addr_type"` // 1, 3, 4
	DomainFam   string  `json:"domain_family,omitempty"`
	UpLen       int     `json:"up_len"`
	DownLen     int     `json:"down_len"`
	Chunks      []int   `json:"chunk_sizes"`
	Coalesce    bool    `json:"address_coalesced_with_data"`
	EmptyChk    bool    `json:"zero_length_chunks"`
	FirstCut    int     `json:"first_write_bytes"` // first TCP write ends here (straddles the 50-byte prefix)
	PauseMs     int     `json:"pause_ms"`
	Mode        string  `json:"mode"` // client-fin-first, target-fin-first, concurrent
	TgtFirst    bool    `json:"target_speaks_first"`
	Raw         bool    `json:"raw_conn"`
	V6Client    bool    `json:"client_over_ipv6"`
	TailAfter   int     `json:"bytes_after_peer_fin"`
	ShortName   string  `json:"short_host_name,omitempty"`
	SlowRead    int     `json:"target_reads_late_ms"`      // the target starts reading this long after accepting
	SlowMs      int     `json:"slow_ms"`                   // both sides pause this long mid-stream (longer than the handshake timeout)
	TailDelayMs int     `json:"tail_delay_ms"`             // after the peer's FIN, the other direction pauses this long before it carries on
	CloseLn     bool    `json:"listener_closed_mid_relay"` // own listener, closed once the relay is established (what every reload does to the old listeners)
}

func (rc relayCase) class() string {
	return fmt.Sprintf("%s|addr=%d|up=%s|down=%s|chunks=%s|coalesce=%v|empty=%v|cut=%s|%s|tfirst=%v|raw=%v", rc.Key.Cipher, rc.AddrType,
		sizeBucket(rc.UpLen), sizeBucket(rc.DownLen), sizeBucket(rc.Chunks[0]), rc.Coalesce, rc.EmptyChk, cutClass(rc.FirstCut), rc.Mode, rc.TgtFirst, rc.Raw) + fmt.Sprintf("|slow=%v|late-reader=%v|short-name=%d|ln-closed=%v", rc.SlowMs > 0, rc.SlowRead > 0, len(rc.ShortName), rc.CloseLn)
}

func cutClass(n int) string {
	switch {
	case n <= 0:
		return "none"
	case n == 1:
		return "1"
	case n < 49:
		return "<49"
	case n <= 51:
		return "49-51"
	default:
		return ">51"
	}
}

func genRelayCase(r *rand.Rand, batch int, keys []KeySpec, big bool) relayCase {
	rc := relayCase{ID: nextID(batch), Key: keys[r.Intn(len(keys))]}
	rc.AddrType = []int{1, 3, 4}[r.Intn(3)]
	if rc.AddrType == 3 {
		rc.DomainFam = pick(r, []string{"v4", "v6", "both"})
		if r.Intn(4) == 0 {
			select {
			case rc.ShortName = <-shortNames:
			default:
			}
		}
	}
	sz := func() int {
		switch r.Intn(8) {
		case 0:
			return 0
		case 1:
			return 1 + r.Intn(50)
		case 2, 3:
			return r.Intn(5000)
		case 4, 5:
			return r.Intn(70000)
		case 6:
			return 16383*(1+r.Intn(3)) + r.Intn(3) - 1
		default:
			if big {
				return 200000 + r.Intn(900000)
			}
			return r.Intn(150000)
		}
	}
	rc.UpLen, rc.DownLen = sz(), sz()
	switch r.Intn(5) {
	case 0:
		rc.Chunks = []int{1 + r.Intn(10)}
		if rc.UpLen > 20000 {
			rc.UpLen = r.Intn(20000) // tiny chunks: keep the chunk count bounded
		}
	case 1:
		rc.Chunks = []int{0x3FFF}
	case 2:
		rc.Chunks = []int{1 + r.Intn(0x3FFF), 1 + r.Intn(500)}
	case 3:
		rc.Chunks = []int{0x3FFF, 1, 0x3FFE}
	default:
		rc.Chunks = []int{100 + r.Intn(3000)}
	}
	rc.Coalesce = r.Intn(2) == 0
	rc.EmptyChk = r.Intn(5) == 0
	switch r.Intn(6) {
	case 0:
		rc.FirstCut = 1
	case 1:
		rc.FirstCut = 49 + r.Intn(3)
	case 2:
		rc.FirstCut = 2 + r.Intn(46)
	case 3:
		rc.FirstCut = 52 + r.Intn(60)
	}
	if rc.FirstCut > 0 {
		rc.PauseMs = r.Intn(30)
	}
	rc.Mode = pick(r, []string{"client-fin-first", "target-fin-first", "concurrent"})
	rc.TgtFirst = r.Intn(3) == 0
	rc.Raw = r.Intn(2) == 0
	rc.V6Client = r.Intn(4) == 0
	rc.TailAfter = r.Intn(3000)
	if r.Intn(16) == 0 {
		rc.SlowMs = slowCaseMs
	}
	if r.Intn(8) == 0 {
		rc.SlowRead = 100 + r.Intn(300)
	}
	if r.Intn(10) == 0 {
		rc.CloseLn = true
		rc.Coalesce = false // the address goes out first, so that the relay exists before the listener closes
	}
	return rc
}

// shortNames is a pool of 1- and 2-character host names; a case borrows one for its lifetime
// (the scripted DNS maps it to that case's target), so concurrent cases never share a name.
var shortNames = func() chan string {
	ch := make(chan string, 200)
	for _, a := range "abcdefghij" {
		ch <- string(a)
		for _, b := range "xyz0" {
			ch <- string(a) + string(b)
		}
	}
	return ch
}()

// relayOutcome is everything observed at the boundary for one case.
type relayOutcome struct {
	Err            string
	Stalled        string
	TargetGot      []byte
	TargetEOF      bool
	TargetConns    int
	ClientGot      []byte
	ClientEOF      bool
	ClientWireSent int64
	ClientWireRecv int64
	TargetSent     int64
	Local          string
	Rec            *TCPConnRec
	HandlerDone    bool
	TailDelivered  bool // data sent after the peer's FIN arrived
	TargetEOFEarly bool // target saw EOF before the client half-closed
	ClientLate     bool // the harness client needed more than half the handshake timeout to send the address
	LnClosedMid    bool // the listener was closed while this relay was established and had data left to move
}

// relayEnv is the shared environment of relay cases.
type relayEnv struct {
	RigRec *TCPRig // recording wrapper rig
	RigRaw *TCPRig // raw *net.TCPConn rig
	Hub    *TargetHub
	DNS    *lab.DNS
	mu     sync.Mutex
	names  map[string][]net.IP
}

func newRelayEnv(keys []KeySpec, optsRec, optsRaw TCPRigOpts) *relayEnv {
	env := &relayEnv{names: map[string][]net.IP{}}
	optsRaw.Raw = true
	env.RigRec = StartTCPRig(keys, optsRec)
	env.RigRaw = StartTCPRig(keys, optsRaw)
	env.Hub = StartTargetHub(0)
	dns, err := lab.StartDNS()
	if err != nil {
		fatalf("dns: %v", err)
	}
	env.DNS = dns
	dns.SetScript(func(name string, qtype uint16, nth int) lab.DNSAnswer {
		env.mu.Lock()
		ips, ok := env.names[name]
		env.mu.Unlock()
		if !ok {
			return lab.DNSAnswer{RCode: 3}
		}
		return lab.DNSAnswer{IPs: ips}
	})
	return env
}

func (e *relayEnv) setName(name string, ips []net.IP) {
	e.mu.Lock()
	e.names[name] = ips
	e.mu.Unlock()
}

func (e *relayEnv) Close() {
	e.RigRec.Close(10 * time.Second)
	e.RigRaw.Close(10 * time.Second)
	e.Hub.Close()
	e.DNS.Close()
}

// caseAddr returns the SOCKS address bytes and the target IPs the case may reach.
func (e *relayEnv) caseAddr(rc relayCase) ([]byte, []net.IP) {
	n := rc.ID & 0xffffff
	switch rc.AddrType {
	case 1:
		return sscodec.AddrIP(caseIP4(n), e.Hub.Port, false), []net.IP{caseIP4(n)}
	case 4:
		return sscodec.AddrIP(caseIP6(n), e.Hub.Port, false), []net.IP{caseIP6(n)}
	}
	name := fmt.Sprintf("c%x%s.lab", n, rc.DomainFam)
	if rc.ShortName != "" {
		name = rc.ShortName // 1-2 character host names: the shortest possible address headers
	}
	var ips []net.IP
	switch rc.DomainFam {
	case "v4":
		ips = []net.IP{caseIP4(n)}
	case "v6":
		ips = []net.IP{caseIP6(n)}
	default:
		ips = []net.IP{caseIP4(n), caseIP6(n)}
	}
	e.setName(name, ips)
	return sscodec.AddrDomain(name, e.Hub.Port), ips
}

// runRelayCase executes one case and returns the boundary observations.
func runRelayCase(e *relayEnv, r *rand.Rand, rc relayCase) *relayOutcome {
	out := &relayOutcome{}
	up := makeStream(rc.ID, rc.UpLen)
	down := makeStream(rc.ID^0xABCDEF, rc.DownLen)
	addr, ips := e.caseAddr(rc)
	rig := e.RigRec
	if rc.Raw {
		rig = e.RigRaw
	}
	if rc.CloseLn {
		o := rig.opts
		o.Tee, o.CloseAfterAccepts, o.ViaManager = nil, 0, false
		rig = StartTCPRig(rig.Keys, o)
		defer rig.Close(relayB)
	}

	var tmu sync.Mutex
	clientFin := make(chan struct{}) // closed when the client has half-closed
	targetDone := make(chan struct{})
	var tdOnce sync.Once
	tr := rand.New(rand.NewSource(int64(rc.ID))) // the target script has its own PRNG
	script := func(tc *TargetConn) {
		tmu.Lock()
		out.TargetConns++
		first := out.TargetConns == 1
		tmu.Unlock()
		if !first {
			tc.Close()
			return
		}
		defer tdOnce.Do(func() { close(targetDone) })
		defer tc.Close()
		var wmu sync.Mutex
		slept := false
		write := func(b []byte) {
			if rc.SlowMs > 0 && !slept && len(b) > 0 {
				slept = true
				time.Sleep(time.Duration(rc.SlowMs) * time.Millisecond)
			}
			for len(b) > 0 {
				n := len(b)
				if n > 8000 {
					n = 1 + tr.Intn(8000)
				}
				tc.SetWriteDeadline(time.Now().Add(relayB))
				w, err := tc.Write(b[:n])
				wmu.Lock()
				out.TargetSent += int64(w)
				wmu.Unlock()
				if err != nil {
					return
				}
				b = b[n:]
			}
		}
		readAll := func() {
			if rc.SlowRead > 0 {
				// the upload piles up in the socket buffers; everything must still arrive, followed by EOF
				time.Sleep(time.Duration(rc.SlowRead) * time.Millisecond)
			}
			buf := make([]byte, 32768)
			for {
				tc.SetReadDeadline(time.Now().Add(relayB))
				n, err := tc.Read(buf)
				tmu.Lock()
				out.TargetGot = append(out.TargetGot, buf[:n]...)
				tmu.Unlock()
				if err != nil {
					if err == io.EOF {
						tmu.Lock()
						out.TargetEOF = true
						select {
						case <-clientFin:
						default:
							out.TargetEOFEarly = true
						}
						tmu.Unlock()
					}
					return
				}
			}
		}
		switch rc.Mode {
		case "client-fin-first":
			head := 0
			if rc.TgtFirst {
				head = len(down) / 3
				write(down[:head])
			}
			readAll() // until the client's FIN arrives
			// the other direction keeps flowing after the client's half-close
			if rc.TailDelayMs > 0 {
				mid := head + (len(down)-head)/2
				write(down[head:mid])
				time.Sleep(time.Duration(rc.TailDelayMs) * time.Millisecond)
				head = mid
			}
			write(down[head:])
		case "target-fin-first":
			write(down)
			tc.CloseWrite()
			readAll()
		case "target-done-early":
			// the target takes the request, answers with everything it has and is done with the
			// connection: it closes once the whole answer has left its socket
			req := make([]byte, min(len(up), 64))
			tc.SetReadDeadline(time.Now().Add(relayB))
			n, _ := io.ReadFull(tc, req)
			tmu.Lock()
			out.TargetGot = append(out.TargetGot, req[:n]...)
			tmu.Unlock()
			write(down)
			for dl := time.Now().Add(relayB); unsentBytes(tc.TCPConn) > 0 && time.Now().Before(dl); {
				time.Sleep(2 * time.Millisecond)
			}
		default:
			var wg sync.WaitGroup
			wg.Add(1)
			go func() {
				defer wg.Done()
				write(down)
				tc.CloseWrite()
			}()
			readAll()
			wg.Wait()
		}
	}
	for _, ip := range ips {
		e.Hub.On(ip.String(), script)
	}
	defer func() {
		for _, ip := range ips {
			e.Hub.Off(ip.String())
		}
		if rc.ShortName != "" {
			shortNames <- rc.ShortName
		}
	}()

	server := rig.Addr4()
	var src net.IP = randSrc4(r)
	if rc.V6Client {
		server = rig.Addr6()
		src = nil
	}
	ck := rc.Key.Codec()
	cl, err := DialSS(server, src, rc.Key, randBytes(r, ck.C.SaltSize))
	if err != nil {
		out.Err = "dial: " + err.Error()
		return out
	}
	defer cl.Conn.Close()
	out.Local = cl.Local
	cr := &countingReader{r: cl.Conn}
	cl.Dec = sscodec.NewStreamDecoder(ck, cr)

	// how much of `up` goes out before the mode-specific part
	initial := len(up)
	if rc.Mode == "target-fin-first" {
		initial = len(up) - min(len(up), rc.TailAfter)
	}
	if rc.Mode == "target-done-early" {
		initial = min(len(up), 64) // the request; the rest of the upload follows when the target is gone
	}
	var wire []byte
	hdrLen := 0 // wire bytes up to and including the chunk that carries the address
	if rc.Coalesce && rc.SlowMs == 0 {
		pt := append(append([]byte(nil), addr...), up[:initial]...)
		if rc.EmptyChk {
			wire = append(wire, cl.Enc.Chunk(nil, -1)...)
		}
		wire = append(wire, cl.Enc.Encode(pt, rc.Chunks)...)
	} else {
		wire = append(wire, cl.Enc.Chunk(addr, -1)...)
		hdrLen = len(wire)
		if rc.EmptyChk {
			wire = append(wire, cl.Enc.Chunk(nil, -1)...)
		}
		wire = append(wire, cl.Enc.Encode(up[:initial], rc.Chunks)...)
	}

	var emu sync.Mutex
	setErr := func(s string) {
		emu.Lock()
		if out.Err == "" {
			out.Err = s
		}
		emu.Unlock()
	}
	readDown := func() {
		got, err := cl.ReadAllPlain(time.Now().Add(relayB))
		emu.Lock()
		out.ClientGot = got
		if err == nil {
			out.ClientEOF = true
		} else if isTimeout(err) {
			out.Stalled = "client read: no data/EOF for 15 s"
		}
		emu.Unlock()
		if err != nil && !isTimeout(err) {
			setErr("client read: " + err.Error())
		}
	}
	var cuts []int
	if rc.FirstCut > 0 {
		cuts = []int{rc.FirstCut}
	}
	// closeLn closes the case's own listener once the target connection exists (never before: a
	// connection that has not dialled yet when its listener goes away may legitimately fail)
	closeLn := func() {
		if !rc.CloseLn {
			return
		}
		// "exists" = upload bytes have come out at the target: the server's dial has returned and the
		// copy loops run (the target's accept alone can precede the return of the server's dial, which a
		// cancelled context would still turn into a failed connect)
		established := false
		for dl := time.Now().Add(3 * time.Second); time.Now().Before(dl) && !established; time.Sleep(time.Millisecond) {
			tmu.Lock()
			established = len(out.TargetGot) > 0
			tmu.Unlock()
		}
		if established {
			rig.closer.Close()
			select {
			case <-rig.done: // StreamServe does not return while the handler runs; give the cancellation time to spread
			case <-time.After(30 * time.Millisecond):
			}
			emu.Lock()
			out.LnClosedMid = true
			emu.Unlock()
		}
	}
	writeWire := func() error {
		defer func() {
			// (first call only matters: the address is in the first part)
		}()
		if rc.SlowMs > 0 && len(wire) > 200 {
			half := max(len(wire)/2, hdrLen) // the handshake timeout covers everything up to the address
			if err := cl.WriteSegmented(wire[:half], cuts, time.Duration(rc.PauseMs)*time.Millisecond); err != nil {
				return err
			}
			if time.Since(cl.T0) > relayTimeout/2 {
				emu.Lock()
				out.ClientLate = true
				emu.Unlock()
			}
			closeLn()
			time.Sleep(time.Duration(rc.SlowMs) * time.Millisecond)
			return cl.WriteRaw(wire[half:])
		}
		err := cl.WriteSegmented(wire[:max(hdrLen, min(len(wire), 60))], cuts, time.Duration(rc.PauseMs)*time.Millisecond)
		if time.Since(cl.T0) > relayTimeout/2 {
			emu.Lock()
			out.ClientLate = true
			emu.Unlock()
		}
		if err != nil {
			return err
		}
		rest := wire[max(hdrLen, min(len(wire), 60)):]
		if rc.CloseLn && len(rest) > 0 {
			// two thirds of the upload go out first, so that the relay demonstrably moves data
			n := len(rest) * 2 / 3
			if err := cl.WriteRaw(rest[:n]); err != nil {
				return err
			}
			rest = rest[n:]
		}
		closeLn()
		return cl.WriteRaw(rest)
	}
	switch rc.Mode {
	case "target-done-early":
		// the request, then - once the target is gone, and without having looked at the answer yet -
		// more upload that nobody will see, a half-close, and only then the answer is read
		reqLen := min(len(up), 64)
		if err := cl.WriteRaw(wire); err != nil {
			setErr("client write: " + err.Error())
		}
		if time.Since(cl.T0) > relayTimeout/2 {
			emu.Lock()
			out.ClientLate = true
			emu.Unlock()
		}
		select {
		case <-targetDone:
		case <-time.After(relayB):
		}
		time.Sleep(100 * time.Millisecond)
		for rest := up[reqLen:]; len(rest) > 0; {
			n := min(len(rest), 1000)
			if cl.WriteRaw(cl.Enc.Encode(rest[:n], nil)) != nil {
				break // the client may or may not be told that its upload goes nowhere
			}
			rest = rest[n:]
			time.Sleep(2 * time.Millisecond)
		}
		close(clientFin)
		cl.Conn.CloseWrite()
		time.Sleep(50 * time.Millisecond)
		readDown()
	case "client-fin-first":
		if err := writeWire(); err != nil {
			setErr("client write: " + err.Error())
		}
		close(clientFin)
		cl.Conn.CloseWrite()
		readDown()
		out.TailDelivered = true // judged from ClientGot == down: everything after the FIN arrived
	case "target-fin-first":
		var wg sync.WaitGroup
		wg.Add(1)
		go func() { defer wg.Done(); readDown() }()
		if err := writeWire(); err != nil {
			setErr("client write: " + err.Error())
		}
		wg.Wait() // the target's FIN has arrived (or the read failed)
		if rc.TailDelayMs > 0 {
			time.Sleep(time.Duration(rc.TailDelayMs) * time.Millisecond)
		}
		// the client keeps sending after the target's half-close
		if rest := up[initial:]; len(rest) > 0 {
			if err := cl.WriteRaw(cl.Enc.Encode(rest, rc.Chunks)); err != nil {
				setErr("client write after target FIN: " + err.Error())
			}
		}
		close(clientFin)
		cl.Conn.CloseWrite()
	default:
		var wg sync.WaitGroup
		wg.Add(1)
		go func() { defer wg.Done(); readDown() }()
		if err := writeWire(); err != nil {
			setErr("client write: " + err.Error())
		}
		close(clientFin)
		cl.Conn.CloseWrite()
		wg.Wait()
	}
	select {
	case <-targetDone:
	case <-time.After(relayB):
		emu.Lock()
		if out.Stalled == "" {
			out.Stalled = "target script did not finish within 15 s"
		}
		emu.Unlock()
	}
	out.ClientWireSent = cl.SentBytes()
	out.ClientWireRecv = cr.n
	rec, done := rig.WaitDone(cl.Local, relayB)
	out.Rec, out.HandlerDone = rec, done
	_ = bytes.Equal
	return out
}

// unsentBytes returns the number of bytes still in the socket's send queue (SIOCOUTQ).
func unsentBytes(conn *net.TCPConn) int {
	raw, err := conn.SyscallConn()
	if err != nil {
		return 0
	}
	var value int32
	raw.Control(func(fd uintptr) {
		syscall.Syscall(syscall.SYS_IOCTL, fd, 0x5411, uintptr(unsafe.Pointer(&value)))
	})
	return int(value)
}
