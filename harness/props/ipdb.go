package props

import (
	"errors"
	"fmt"
	"math/rand"
	"net"
	"sync"
	"time"

	"github.com/Jigsaw-Code/outline-ss-server/ipinfo"
	dto "github.com/prometheus/client_model/go"
)

// fakeDB is a recording IP database with scripted behaviour decided by the address:
// the low bits of the last byte choose hit / miss (no country) / error.
type fakeDB struct {
	mu    sync.Mutex
	calls []string
	delay time.Duration
}

type dbBehaviour int

const (
	dbHit dbBehaviour = iota
	dbMiss
	dbErr
	dbErrWithCountry
)

func dbBehaviourOf(ip net.IP) dbBehaviour {
	b := ip[len(ip)-1]
	switch b % 8 {
	case 5:
		return dbMiss
	case 6:
		return dbErr
	case 7:
		return dbErrWithCountry
	}
	return dbHit
}

var countries = []string{"US", "DE", "BR", "IN", "JP", "ZA", "XK"} // XK: a user-assigned code real databases do return (Kosovo)

func dbAnswer(ip net.IP) ipinfo.IPInfo {
	ip16 := ip.To16()
	c := countries[int(ip16[15]>>3)%len(countries)]
	return ipinfo.IPInfo{CountryCode: ipinfo.CountryCode(c), ASN: ipinfo.ASN{Number: 99000 + int(ip16[14]%8), Organization: fmt.Sprintf("Org%d", ip16[14]%8)}}
}

func (d *fakeDB) GetIPInfo(ip net.IP) (ipinfo.IPInfo, error) {
	d.mu.Lock()
	d.calls = append(d.calls, ip.String())
	delay := d.delay
	d.mu.Unlock()
	if delay > 0 {
		time.Sleep(delay)
	}
	switch dbBehaviourOf(ip.To16()) {
	case dbMiss:
		a := dbAnswer(ip)
		a.CountryCode = ""
		return a, nil
	case dbErr:
		return ipinfo.IPInfo{}, errors.New("scripted database error")
	case dbErrWithCountry:
		// a partial answer together with an error (e.g. country db fine, ASN db failing)
		a := dbAnswer(ip)
		a.ASN = ipinfo.ASN{}
		return a, errors.New("scripted partial database error")
	}
	return dbAnswer(ip), nil
}

func (d *fakeDB) takeCalls() []string {
	d.mu.Lock()
	defer d.mu.Unlock()
	c := d.calls
	d.calls = nil
	return c
}

// ipClass classifies an address by the block list in the property text, independently of
// Go's net.IP predicates. Returns "global" or the name of a non-global class.
func ipClass(ip net.IP) string {
	if v4 := ip.To4(); v4 != nil { // includes IPv4-mapped IPv6
		switch {
		case v4[0] == 0 && v4[1] == 0 && v4[2] == 0 && v4[3] == 0:
			return "unspecified"
		case v4[0] == 127:
			return "loopback"
		case v4[0] == 169 && v4[1] == 254:
			return "link-local"
		case v4[0] >= 224 && v4[0] <= 239:
			return "multicast"
		case v4[0] == 255 && v4[1] == 255 && v4[2] == 255 && v4[3] == 255:
			return "broadcast"
		}
		return "global"
	}
	ip16 := ip.To16()
	allZero := true
	for _, b := range ip16[:15] {
		if b != 0 {
			allZero = false
		}
	}
	switch {
	case allZero && ip16[15] == 0:
		return "unspecified"
	case allZero && ip16[15] == 1:
		return "loopback"
	case ip16[0] == 0xfe && ip16[1]&0xc0 == 0x80:
		return "link-local"
	case ip16[0] == 0xff:
		return "multicast"
	}
	return "global"
}

// expectedLocation is the label the property demands for a parsed IP.
func expectedLocation(ip net.IP, dbEnabled bool) (label string, consultDB bool) {
	if !dbEnabled {
		return "", false
	}
	if ipClass(ip) != "global" {
		return "XL", false
	}
	switch dbBehaviourOf(ip.To16()) {
	case dbMiss:
		return "ZZ", true
	case dbErr, dbErrWithCountry:
		return "XD", true
	}
	return string(dbAnswer(ip).CountryCode), true
}

// genIP generates an address of a chosen class.
func genIP(r *rand.Rand) (net.IP, string) {
	v4 := func(a, b, c, d byte) net.IP { return net.IPv4(a, b, c, d).To4() }
	rb := func() byte { return byte(r.Intn(256)) }
	mapIt := func(ip net.IP, tag string) (net.IP, string) {
		if r.Intn(4) == 0 {
			return ip.To16(), tag + "/mapped16" // 16-byte (IPv4-mapped) representation
		}
		return ip, tag
	}
	switch r.Intn(16) {
	case 0:
		return mapIt(v4(127, rb(), rb(), rb()), "v4-loopback")
	case 1:
		return mapIt(v4(169, 254, rb(), rb()), "v4-link-local")
	case 2:
		return mapIt(v4(byte(224+r.Intn(16)), rb(), rb(), rb()), "v4-multicast")
	case 3:
		return mapIt(v4(255, 255, 255, 255), "v4-broadcast")
	case 4:
		return mapIt(v4(0, 0, 0, 0), "v4-unspecified")
	case 5:
		return net.IPv6unspecified, "v6-unspecified"
	case 6:
		return net.IPv6loopback, "v6-loopback"
	case 7:
		ip := make(net.IP, 16)
		r.Read(ip)
		ip[0], ip[1] = 0xfe, 0x80|byte(r.Intn(0x40))
		return ip, "v6-link-local"
	case 8:
		ip := make(net.IP, 16)
		r.Read(ip)
		ip[0] = 0xff
		return ip, "v6-multicast"
	case 9:
		// private but global-unicast for location purposes
		switch r.Intn(4) {
		case 0:
			return mapIt(v4(10, rb(), rb(), rb()), "v4-rfc1918")
		case 1:
			return mapIt(v4(192, 168, rb(), rb()), "v4-rfc1918")
		case 2:
			return mapIt(v4(100, byte(64+r.Intn(64)), rb(), rb()), "v4-cgnat")
		default:
			ip := make(net.IP, 16)
			r.Read(ip)
			ip[0] = 0xfd
			return ip, "v6-ula"
		}
	case 10, 11, 12:
		for {
			ip := v4(byte(1+r.Intn(222)), rb(), rb(), rb())
			if ipClass(ip) == "global" {
				return mapIt(ip, "v4-global")
			}
		}
	default:
		ip := make(net.IP, 16)
		r.Read(ip)
		ip[0] = 0x20 | byte(r.Intn(0x10)) // 2000::/3
		return ip, "v6-global"
	}
}

// ---- Prometheus gather helpers ----

func labelsOf(m *dto.Metric) map[string]string {
	out := map[string]string{}
	for _, l := range m.GetLabel() {
		out[l.GetName()] = l.GetValue()
	}
	return out
}

// counterSum sums the counter family `name` over the series matching all of `match`.
func counterSum(mfs []*dto.MetricFamily, name string, match map[string]string) float64 {
	s := 0.0
	for _, mf := range mfs {
		if mf.GetName() != name {
			continue
		}
		for _, m := range mf.GetMetric() {
			ls := labelsOf(m)
			ok := true
			for k, v := range match {
				if ls[k] != v {
					ok = false
				}
			}
			if ok {
				if m.Counter != nil {
					s += m.GetCounter().GetValue()
				} else if m.Histogram != nil {
					s += float64(m.GetHistogram().GetSampleCount())
				}
			}
		}
	}
	return s
}

// counterBy groups the counter family by one label.
func counterBy(mfs []*dto.MetricFamily, name, label string) map[string]float64 {
	out := map[string]float64{}
	for _, mf := range mfs {
		if mf.GetName() != name {
			continue
		}
		for _, m := range mf.GetMetric() {
			out[labelsOf(m)[label]] += m.GetCounter().GetValue()
		}
	}
	return out
}
