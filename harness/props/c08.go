package props

import (
	"bytes"
	"crypto/hmac"
	"crypto/sha1"
	"fmt"
	"github.com/Jigsaw-Code/outline-sdk/transport/shadowsocks"
	"io"
	"math/rand"
	"net"
	"runtime"
	"sync"
	"time"

	"github.com/Jigsaw-Code/outline-ss-server/service"
	"golang.org/x/crypto/hkdf"

	"verifharness/lab"
	"verifharness/sscodec"
	"verifharness/vk"
)

// C08: server-issued salts are fresh, recognisable, and never accepted back.

type serverOutput struct {
	key KeySpec
	raw []byte // exactly what the server sent (salt + chunks)
}

// independentMark recomputes the documented server-salt mark: HMAC-SHA1 keyed with
// HKDF-SHA1(secret, info="outline-server-salt"), over the salt prefix, truncated to 4 bytes.
func independentMark(secret string, prefix []byte) []byte {
	key := make([]byte, 20)
	io.ReadFull(hkdf.New(sha1.New, []byte(secret), nil, []byte("outline-server-salt")), key)
	m := hmac.New(sha1.New, key)
	m.Write(prefix)
	return m.Sum(nil)[:4]
}

func c08Run(c *vk.Ctx) {
	lab.MustSetup(c.RunDir)
	r := c.Rng
	hub := StartTargetHub(0)
	defer hub.Close()
	var keys []KeySpec
	for i, cn := range cipherNames {
		keys = append(keys, KeySpec{ID: fmt.Sprintf("k-%d", i), Cipher: cn, Secret: randSecret(r)})
	}
	keys = append(keys, RandKeys(r, 4, nil, 0)...)
	// one secret under all four ciphers, the 16-byte-salt cipher first
	shared := randSecret(r)
	for i, cn := range []string{"aes-128-gcm", "aes-192-gcm", "chacha20-ietf-poly1305", "aes-256-gcm"} {
		keys = append([]KeySpec{{ID: fmt.Sprintf("shared-%d", i), Cipher: cn, Secret: shared}}, keys...)
	}
	keys[0], keys[3] = keys[3], keys[0] // aes-128-gcm in front
	cache := service.NewReplayCache(5000)
	rigOff := StartTCPRig(keys, TCPRigOpts{Timeout: c06T})
	// the second service carries the same keys under OTHER ids (a key renamed by a reload, one secret
	// given to two services): what one service issued, the other recognises too
	renamed := append([]KeySpec(nil), keys...)
	for i := range renamed {
		renamed[i].ID = "renamed-" + renamed[i].ID
	}
	rigOn := StartTCPRig(renamed, TCPRigOpts{Timeout: c06T, Replay: &cache, Raw: true})
	defer rigOff.Close(5 * time.Second)
	defer rigOn.Close(5 * time.Second)

	// What the target sends is itself a well-formed Shadowsocks request plaintext (address of
	// a sink + data): if the server ever accepted a reflection, it would dial that sink.
	sinkIP := caseIP4(0xFEED00 | uint64(c.Batch))
	var sinkHits int
	var smu sync.Mutex
	hub.On(sinkIP.String(), func(tc *TargetConn) {
		smu.Lock()
		sinkHits++
		smu.Unlock()
		tc.Close()
	})
	targetData := append(sscodec.AddrIP(sinkIP, hub.Port, false), []byte("reflected-payload")...)
	hub.SetDefault(func(tc *TargetConn) {
		buf := make([]byte, 512)
		tc.SetReadDeadline(time.Now().Add(5 * time.Second))
		tc.Read(buf)
		tc.Write(targetData)
		tc.Close()
	})

	// ---- phase 1: collect server output, concurrently on the same keys ----
	var omu sync.Mutex
	var outputs []serverOutput
	salts := map[string]string{}
	nConn := c.N(400, 4000)
	var wg sync.WaitGroup
	jobs := make(chan int)
	var bad sync.Once
	failed := false
	for w := 0; w < 12; w++ {
		wg.Add(1)
		wr := c.SubRng("c08w", w)
		go func() {
			defer wg.Done()
			for i := range jobs {
				k := keys[i%len(keys)]
				if i%3 == 0 {
					k = keys[wr.Intn(2)] // hot keys: many concurrent connections on one key
				}
				rig := rigOff
				if i%2 == 1 {
					rig = rigOn
				}
				ck := k.Codec()
				cl, err := DialSS(rig.Addr4(), randSrc4(wr), k, randBytes(wr, ck.C.SaltSize))
				if err != nil {
					c.Inconclusive("dial: " + err.Error())
					continue
				}
				caseN := nextID(c.Batch)
				cl.WriteRaw(cl.Enc.Encode(append(sscodec.AddrIP(caseIP4(caseN&0xffffff), hub.Port, false), 'x'), nil))
				cl.Conn.SetReadDeadline(time.Now().Add(10 * time.Second))
				raw, _ := io.ReadAll(cl.Conn)
				cl.Conn.Close()
				dec := sscodec.NewStreamDecoder(ck, bytes.NewReader(raw))
				var plain []byte
				for {
					p, err := dec.ReadChunk()
					if err != nil {
						break
					}
					plain = append(plain, p...)
				}
				c.Eval("collect|" + k.Cipher)
				if !bytes.Equal(plain, targetData) {
					bad.Do(func() {
						failed = true
						c.Violation("C08/response-stream-not-decodable-under-client-key", map[string]any{"key": k, "raw_len": len(raw), "plain_len": len(plain)})
					})
					continue
				}
				salt := string(raw[:ck.C.SaltSize])
				omu.Lock()
				if prev, dup := salts[salt]; dup {
					bad.Do(func() {
						failed = true
						c.Violation("C08/server-salt-repeated", map[string]any{"salt": fmt.Sprintf("%x", salt), "first_key": prev, "second_key": k.ID})
					})
				}
				salts[salt] = k.ID
				outputs = append(outputs, serverOutput{k, raw})
				omu.Unlock()
				if ck.C.SaltSize >= 20 {
					if !bytes.Equal(independentMark(k.Secret, raw[:ck.C.SaltSize-4]), raw[ck.C.SaltSize-4:ck.C.SaltSize]) {
						// Information only: the marking scheme is an implementation detail. What the
						// property demands (the server recognises its own salt) is decided by phase 2,
						// which reflects every collected salt.
						c.Count("salts_with_unexpected_mark_layout", 1)
						c.Note("salt %x of key %s does not carry the documented HMAC mark", salt, k.ID)
					}
					c.Count("salts_mark_verified", 1)
				}
				c.Count("server_salts_collected", 1)
			}
		}()
	}
	for i := 0; i < nConn; i++ {
		jobs <- i
	}
	close(jobs)
	wg.Wait()
	if failed {
		return
	}
	c.Sample(map[string]any{"distinct_server_salts": len(salts), "example_salt": fmt.Sprintf("%x", outputs[0].raw[:outputs[0].key.Codec().C.SaltSize]), "cipher": outputs[0].key.Cipher})

	// ---- phase 2: reflections ----
	type refl struct {
		o      serverOutput
		form   string
		in     []byte
		fin    bool
		second bool
	}
	var rs []refl
	for i, o := range outputs {
		ss := o.key.Codec().C.SaltSize
		if ss < 20 {
			continue // the 16-byte-salt cipher is exempt
		}
		form := []string{"verbatim", "truncated-50", "truncated-header", "extended", "own-stream-with-server-salt"}[i%5]
		var in []byte
		switch form {
		case "verbatim":
			in = o.raw
		case "truncated-50":
			in = o.raw[:50]
		case "truncated-header":
			in = o.raw[:max(50, ss+2+16)]
		case "extended":
			in = append(append([]byte(nil), o.raw...), randBytes(r, 1+r.Intn(300))...)
			if (i/5)%2 == 0 {
				// a recording followed by more than any bounded drain would read: still read silently
				// until the deadline, like an invalid probe of that size
				form = "extended-large"
				in = append(in, randBytes(r, 66000+r.Intn(140000))...)
			}
		default:
			enc := sscodec.NewStreamEncoder(o.key.Codec(), o.raw[:ss])
			in = enc.Encode(targetData, nil)
		}
		rs = append(rs, refl{o, form, in, i%7 != 0, false})
	}
	var again []refl
	var amu sync.Mutex
	_ = &amu
	jobs2 := make(chan refl, 100000)
	for w := 0; w < 16; w++ {
		wg.Add(1)
		wr := c.SubRng("c08r", w)
		go func() {
			defer wg.Done()
			for rf := range jobs2 {
				rig, rname := rigOff, "cache-off"
				if wr.Intn(2) == 0 {
					rig, rname = rigOn, "cache-on"
				}
				cl, err := DialSS(rig.Addr4(), randSrc4(wr), rf.o.key, nil)
				if err != nil {
					c.Inconclusive("dial: " + err.Error())
					continue
				}
				cl.WriteRaw(rf.in)
				late := time.Since(cl.T0) > c06T/2
				if rf.fin {
					cl.Conn.CloseWrite()
				}
				obs := watchClose(cl, cl.T0.Add(c06T+c06B))
				if late {
					// the harness itself was descheduled for a large part of the handshake timeout before it
					// had written the reflection: the server may legitimately have timed the handshake out
					cl.Conn.Close()
					rig.WaitDone(cl.Local, c06B)
					c.Inconclusive("reflection written later than half the handshake timeout after dialling (loaded machine)")
					continue
				}
				cl.Conn.Close()
				rec, done := rig.WaitDone(cl.Local, c06B)
				c.Eval(fmt.Sprintf("reflect|%s|%s|%s|fin=%v|second=%v", rf.o.key.Cipher, rf.form, rname, rf.fin, rf.second))
				wit := map[string]any{"form": rf.form, "key": rf.o.key, "rig": rname, "client_saw": fmt.Sprintf("%+v", obs)}
				if !done || rec == nil {
					c.Violation("C08/handler-did-not-finish", wit)
					continue
				}
				sn := rec.Snap()
				wit["server_status"], wit["server_seq"] = sn.Status(), sn.Seq
				if sn.Status() != "ERR_REPLAY_SERVER" {
					c.Violation("C08/reflected-server-salt-not-refused", wit)
					continue
				}
				if obs.bytes != 0 || len(sn.Auth) != 0 || len(sn.Probes) != 1 {
					c.Violation("C08/reflection-not-handled-like-a-probe", wit)
					continue
				}
				if !rf.fin && (obs.after < c06T || obs.kind != "eof") {
					c.Violation("C08/reflection-closed-early-or-abnormally", wit)
					continue
				}
				c.Count("reflections_refused", 1)
				c.Count("reflections_refused_"+rname, 1)
				if !rf.fin || rf.second {
					continue
				}
				// the same reflection once more: still a reflected server salt, whatever the cache remembers
				rf2 := rf
				rf2.second = true
				amu.Lock()
				if len(again) < 300 {
					again = append(again, rf2)
				}
				amu.Unlock()
			}
		}()
	}
	for _, rf := range rs {
		jobs2 <- rf
	}
	// wait until the first presentations are through, then present a sample a second time
	for len(jobs2) > 0 {
		time.Sleep(10 * time.Millisecond)
	}
	time.Sleep(300 * time.Millisecond)
	amu.Lock()
	second := append([]refl(nil), again...)
	amu.Unlock()
	for _, rf := range second {
		jobs2 <- rf
	}
	close(jobs2)
	wg.Wait()
	c.Count("reflections_presented_twice", int64(len(second)))
	smu.Lock()
	hits := sinkHits
	smu.Unlock()
	if hits != 0 {
		c.Violation("C08/reflected-request-was-served", map[string]any{"sink_connections": hits})
	}
	_ = net.IPv4
	_ = rand.Int
}

// c08Burst: response streams started in bulk, the way many handlers of one key do at the same
// moment: one shadowsocks.Writer per "connection", all sharing the key's salt generator (the
// object the stream handler uses). Every stream starts with a salt no other stream of the run
// starts with, and the key's generator recognises each of them as server-issued.
func c08Burst(c *vk.Ctx) bool {
	r := c.Rng
	defer runtime.GOMAXPROCS(runtime.GOMAXPROCS(16))
	const workers, perWorker = 16, 2000
	for _, cn := range cipherNames {
		k := KeySpec{ID: "burst", Cipher: cn, Secret: randSecret(r)}
		key, err := shadowsocks.NewEncryptionKey(cn, k.Secret)
		if err != nil {
			fatalf("key: %v", err)
		}
		entry := service.MakeCipherEntry(k.ID, key, k.Secret)
		seen := map[string]bool{}
		for round := 0; round < c.N(3, 12); round++ {
			salts := make([][]byte, workers)
			errs := make([]string, workers)
			start := make(chan struct{})
			var wg sync.WaitGroup
			for w := 0; w < workers; w++ {
				wg.Add(1)
				go func(w int) {
					defer wg.Done()
					defer func() {
						if p := recover(); p != nil {
							errs[w] = fmt.Sprintf("panic while starting a response stream: %v", p)
						}
					}()
					<-start
					ss := key.SaltSize()
					all := make([]byte, 0, perWorker*ss)
					var out bytes.Buffer
					for i := 0; i < perWorker; i++ {
						out.Reset()
						ssw := shadowsocks.NewWriter(&out, key)
						ssw.SetSaltGenerator(entry.SaltGenerator)
						if _, err := ssw.Write([]byte{1}); err != nil {
							errs[w] = err.Error()
							return
						}
						all = append(all, out.Bytes()[:ss]...)
					}
					salts[w] = all
				}(w)
			}
			c.Progress("C08 burst cipher=%s round=%d", cn, round)
			close(start)
			wg.Wait()
			ss := key.SaltSize()
			for w := range salts {
				if errs[w] != "" {
					c.Violation("C08/burst/response-stream-could-not-start", map[string]any{"cipher": cn, "error": errs[w]})
					return false
				}
				for i := 0; i+ss <= len(salts[w]); i += ss {
					salt := salts[w][i : i+ss]
					if seen[string(salt)] {
						c.Violation("C08/server-salt-repeated", map[string]any{"salt": fmt.Sprintf("%x", salt), "cipher": cn, "phase": fmt.Sprintf("%d handlers starting response streams concurrently", workers), "salts_issued_before": len(seen)})
						return false
					}
					seen[string(salt)] = true
					if ss >= 20 && !entry.SaltGenerator.IsServerSalt(salt) {
						c.Violation("C08/burst/issued-salt-not-recognised-as-server-salt", map[string]any{"salt": fmt.Sprintf("%x", salt), "cipher": cn})
						return false
					}
				}
			}
		}
		c.Count("burst_salts_pairwise_distinct", int64(len(seen)))
		c.Eval("burst|" + cn)
	}
	return true
}

func init() {
	vk.Register(&vk.Spec{
		ID:    "C08",
		Level: "exploration",
		Rule: "collect: 400..4000 real connections (12 concurrent, hot keys shared) across all four ciphers with a speaking target; every response stream is decoded with the independent codec, its salt added to a set (pairwise freshness) and, for salts >= 20 bytes, its mark recomputed independently; " +
			"burst: 16 goroutines x 2000 response streams x 3..12 rounds per cipher started concurrently on one key's salt generator (as concurrent handlers do), salts pairwise distinct and recognised; reflect: every collected server output is presented back as client input (verbatim, truncated to 50 bytes / to the header, extended by 1..300 bytes or by 66..206 KB, or a fresh client stream built on the server's salt), with and without FIN, replay cache off and on; class = (phase, cipher, form, cache, FIN)",
		Assumptions: []string{"the target's data is itself a valid request for a sink address, so an accepted reflection would be seen as a connection to the sink", "aes-128-gcm (16-byte salt): freshness only, as the property exempts it"},
		Batches:     func(t string) int { return map[string]int{"quick": 3, "thorough": 12}[t] },
		Parallel:    func(t string) int { return 3 },
		Timeout:     func(t string) time.Duration { return 25 * time.Minute },
		Run: func(c *vk.Ctx) {
			c.Require("server_salts_collected")
			c.Require("salts_mark_verified")
			c.Require("reflections_refused_cache-off")
			c.Require("reflections_refused_cache-on")
			c.Require("burst_salts_pairwise_distinct")
			c.Require("reflections_across_a_restart_refused")
			if !c08Burst(c) {
				return
			}
			c08Run(c)
			if c.Batch == 0 {
				c08Process(c)
			}
		},
	})
}
