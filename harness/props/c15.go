package props

import (
	"fmt"
	"math"
	"math/rand"
	"net"
	"strings"
	"sync"
	"sync/atomic"
	"time"

	oprom "github.com/Jigsaw-Code/outline-ss-server/prometheus"
	"github.com/Jigsaw-Code/outline-ss-server/service"
	"github.com/prometheus/client_golang/prometheus"

	"verifharness/lab"
	"verifharness/sscodec"
	"verifharness/vk"
)

// C15: TCP connection metrics match what happened on the wire.

type c15Expect struct {
	scenario string
	statuses []string // acceptable final statuses
	authed   bool     // authentication must be reported (exactly once, before closed)
	probe    bool     // a probe report must be made (exactly once)
}

// judgeSeq checks the call sequence open · authenticated? · probe? · closed.
func judgeSeq(c *vk.Ctx, ex c15Expect, sn TCPConnSnap, clientSent int64, keys []KeySpec, k KeySpec) bool {
	wit := map[string]any{"scenario": ex.scenario, "seq": sn.Seq, "status": sn.Status(), "auth": sn.Auth, "probes": fmt.Sprintf("%+v", sn.Probes)}
	if len(sn.Closed) != 1 {
		c.Violation("C15/closed-not-reported-exactly-once", wit)
		return false
	}
	if sn.Seq[len(sn.Seq)-1] != "closed" {
		c.Violation("C15/report-after-closed", wit)
		return false
	}
	okStatus := false
	for _, s := range ex.statuses {
		if s == sn.Status() {
			okStatus = true
		}
	}
	if !okStatus {
		wit["expected"] = ex.statuses
		c.Violation("C15/status-does-not-name-the-outcome", wit)
		return false
	}
	if ex.authed != (len(sn.Auth) == 1) || len(sn.Auth) > 1 {
		c.Violation("C15/authentication-report-mismatch", wit)
		return false
	}
	if ex.authed && !IDsFor(keys, k)[sn.Auth[0]] {
		wit["expected_ids"] = vk.SortedKeys(IDsFor(keys, k))
		c.Violation("C15/authenticated-with-wrong-key-id", wit)
		return false
	}
	if ex.probe != (len(sn.Probes) == 1) || len(sn.Probes) > 1 {
		c.Violation("C15/probe-report-mismatch", wit)
		return false
	}
	if ex.probe {
		if sn.Probes[0].Bytes != clientSent {
			wit["client_sent"] = clientSent
			c.Violation("C15/probe-bytes-differ-from-bytes-received", wit)
			return false
		}
		if sn.Probes[0].Status != sn.Status() {
			c.Violation("C15/probe-status-differs-from-close-status", wit)
			return false
		}
	}
	return true
}

func c15Run(c *vk.Ctx) {
	lab.MustSetup(c.RunDir)
	r := c.Rng
	var keys []KeySpec
	for i, cn := range cipherNames {
		keys = append(keys, KeySpec{ID: fmt.Sprintf("k-%d", i), Cipher: cn, Secret: randSecret(r)})
	}
	keys = append(keys, RandKeys(r, 5, nil, 0.3)...)
	sm, err := oprom.NewServiceMetrics(&fakeDB{})
	if err != nil {
		fatalf("NewServiceMetrics: %v", err)
	}
	reg := prometheus.NewRegistry()
	reg.MustRegister(sm)
	cache := service.NewReplayCache(2000)
	env := newRelayEnv(keys, TCPRigOpts{Timeout: relayTimeout, Tee: sm, Replay: &cache}, TCPRigOpts{Timeout: relayTimeout, Tee: sm, Replay: &cache})
	closed := false
	defer func() {
		if !closed {
			env.Close()
		}
	}()
	hub := env.Hub

	type job func(jr *rand.Rand) bool
	var jobs []job
	// --- clean exchanges: the four byte counters equal independent counts ---
	for i := 0; i < c.N(80, 400); i++ {
		rc := genRelayCase(r, c.Batch, keys, false)
		if rc.SlowMs > 0 && i%2 == 0 {
			rc.SlowMs = 0
		}
		jobs = append(jobs, func(jr *rand.Rand) bool {
			c.Progress("C15 ok %+v", rc)
			o := runRelayCase(env, jr, rc)
			c.Eval("ok|" + rc.Mode + "|" + rc.Key.Cipher + fmt.Sprintf("|raw=%v|up=%s|down=%s", rc.Raw, sizeBucket(rc.UpLen), sizeBucket(rc.DownLen)))
			if !judgeRelay(c, "C15/relay", rc, o) {
				return false
			}
			sn := o.Rec.Snap()
			if !judgeSeq(c, c15Expect{scenario: "ok", statuses: []string{"OK"}, authed: true}, sn, 0, keys, rc.Key) {
				return false
			}
			d := sn.Closed[0].Data
			want := map[string][2]int64{
				"client->proxy": {d.ClientProxy, o.ClientWireSent},
				"proxy->client": {d.ProxyClient, o.ClientWireRecv},
				"proxy->target": {d.ProxyTarget, int64(len(o.TargetGot))},
				"target->proxy": {d.TargetProxy, o.TargetSent},
			}
			for dir, v := range want {
				if v[0] != v[1] {
					c.Violation("C15/byte-counter-differs-from-wire", map[string]any{"direction": dir, "reported": v[0], "observed_at_socket": v[1], "case": rc})
					return false
				}
			}
			if !rc.Raw && (d.ClientProxy != sn.BytesRead || d.ProxyClient != sn.BytesWritten) {
				c.Violation("C15/byte-counter-differs-from-server-socket", map[string]any{"reported_cp": d.ClientProxy, "socket_read": sn.BytesRead, "reported_pc": d.ProxyClient, "socket_written": sn.BytesWritten})
				return false
			}
			c.Count("clean_exchanges_counters_equal", 1)
			return true
		})
	}
	// --- failure scenarios ---
	scenarios := []string{"junk", "junk-fin", "replay-client", "reflect-server", "bad-address-type", "dest-loopback", "dest-private", "dest-mapped-private", "connect-refused", "client-rst-mid-relay", "cipher-error-mid-relay", "target-rst-mid-answer", "client-fin-immediately", "empty-then-close", "client-rst-while-target-streams", "cipher-error-after-target-finished", "truncated-chunk-after-target-finished", "listener-closed-before-address", "address-stalled"}
	for i := 0; i < c.N(90, 450); i++ {
		sc := scenarios[i%len(scenarios)]
		jobs = append(jobs, func(jr *rand.Rand) bool { return c15Scenario(c, jr, env, keys, sc) })
	}
	r.Shuffle(len(jobs), func(i, j int) { jobs[i], jobs[j] = jobs[j], jobs[i] })
	conc := pick(r, []int{1, 4, 16, 64})
	var wg sync.WaitGroup
	ch := make(chan job)
	stop := make(chan struct{})
	var once sync.Once
	for w := 0; w < conc; w++ {
		wg.Add(1)
		wr := c.SubRng("c15w", w)
		go func() {
			defer wg.Done()
			for j := range ch {
				select {
				case <-stop:
					continue
				default:
				}
				if !j(wr) {
					once.Do(func() { close(stop) })
				}
			}
		}()
	}
	for _, j := range jobs {
		ch <- j
	}
	close(ch)
	wg.Wait()
	select {
	case <-stop:
		return
	default:
	}
	c.Count(fmt.Sprintf("concurrency_%d", conc), 1)
	_ = hub
	// --- a crowd: 280..420 connections open on ONE listener at the same time (silent clients), a
	// clean exchange in the middle of them; every one of them is reported opened and closed ---
	{
		rig := env.RigRec
		nCrowd := 280 + r.Intn(140)
		var crowd []*SSClient
		for i := 0; i < nCrowd; i++ {
			cl, err := DialSS(rig.Addr4(), randSrc4(r), keys[0], nil)
			if err != nil {
				break
			}
			crowd = append(crowd, cl)
		}
		c.Progress("C15 crowd of %d open connections", len(crowd))
		rc := genRelayCase(r, c.Batch, keys, false)
		rc.Raw, rc.SlowMs, rc.SlowRead, rc.CloseLn, rc.TailDelayMs = false, 0, 0, false, 0
		o := runRelayCase(env, r, rc)
		okRelay := judgeRelay(c, "C15/relay", rc, o)
		for _, cl := range crowd {
			cl.Conn.Close()
		}
		if !okRelay {
			return
		}
		for _, cl := range crowd {
			rec, done := rig.WaitDone(cl.Local, relayTimeout+c06B)
			if rec == nil || !done {
				c.Violation("C15/closed-not-reported-exactly-once", map[string]any{"scenario": "one of a crowd of silent connections", "connections_open_at_once": len(crowd), "handler_finished": done})
				return
			}
			sn := rec.Snap()
			if len(sn.Closed) != 1 || len(sn.Probes) != 1 || sn.Status() != "ERR_CIPHER" {
				c.Violation("C15/status-does-not-name-the-outcome", map[string]any{"scenario": "one of a crowd of silent connections", "seq": sn.Seq, "status": sn.Status(), "connections_open_at_once": len(crowd)})
				return
			}
		}
		c.Count("crowd_connections_all_reported", int64(len(crowd)))
		c.Max("max_connections_open_at_once_on_one_listener", int64(len(crowd)))
		c.Eval("crowd|silent-connections|" + sizeBucket(len(crowd)))
	}
	// --- quiescence: the gathered families equal the recorder's sums ---
	closed = true
	env.RigRec.Close(10 * time.Second)
	env.RigRaw.Close(10 * time.Second)
	defer env.Hub.Close()
	defer env.DNS.Close()
	var all []*TCPConnRec
	all = append(all, env.RigRec.All()...)
	all = append(all, env.RigRaw.All()...)
	wantClosed := map[string]float64{}
	wantBytes := map[string]float64{}
	wantProbes := map[string]float64{}
	for _, rec := range all {
		select {
		case <-rec.done:
		case <-time.After(relayB):
			c.Violation("C15/handler-still-running-at-quiescence", rec.Remote)
			return
		}
		sn := rec.Snap()
		if len(sn.Closed) != 1 {
			c.Violation("C15/closed-not-reported-exactly-once", map[string]any{"seq": sn.Seq, "remote": sn.Remote})
			return
		}
		key := ""
		if len(sn.Auth) > 0 {
			key = sn.Auth[0]
		}
		wantClosed[sn.Status()+"/"+key]++
		d := sn.Closed[0].Data
		wantBytes["c>p/"+key] += float64(d.ClientProxy)
		wantBytes["p>t/"+key] += float64(d.ProxyTarget)
		wantBytes["p<t/"+key] += float64(d.TargetProxy)
		wantBytes["c<p/"+key] += float64(d.ProxyClient)
		for _, p := range sn.Probes {
			wantProbes[p.Status+"/"+p.Drain]++
		}
	}
	mfs, err := reg.Gather()
	if err != nil {
		c.Violation("C15/gather-error", err.Error())
		return
	}
	if got := counterSum(mfs, "tcp_connections_opened", nil); got != float64(len(all)) {
		c.Violation("C15/gathered-opened-differs", map[string]any{"gathered": got, "accepted_connections": len(all)})
		return
	}
	gotClosed := map[string]float64{}
	gotBytes := map[string]float64{}
	gotProbes := map[string]float64{}
	for _, mf := range mfs {
		for _, m := range mf.GetMetric() {
			ls := labelsOf(m)
			switch mf.GetName() {
			case "tcp_connections_closed":
				gotClosed[ls["status"]+"/"+ls["access_key"]] += m.GetCounter().GetValue()
			case "data_bytes":
				if ls["proto"] == "tcp" {
					gotBytes[ls["dir"]+"/"+ls["access_key"]] += m.GetCounter().GetValue()
				}
			case "tcp_probes":
				gotProbes[ls["status"]+"/"+ls["error"]] += float64(m.GetHistogram().GetSampleCount())
			}
		}
	}
	cmp := func(what string, want, got map[string]float64) bool {
		for k, v := range want {
			if v != 0 && math.Abs(got[k]-v) > 0.5 {
				c.Violation("C15/gathered-"+what+"-differs-from-reports", map[string]any{"series": k, "gathered": got[k], "reported_sum": v})
				return false
			}
		}
		for k, v := range got {
			if v != 0 && math.Abs(want[k]-v) > 0.5 {
				c.Violation("C15/gathered-"+what+"-differs-from-reports", map[string]any{"series": k, "gathered": v, "reported_sum": want[k]})
				return false
			}
		}
		return true
	}
	if cmp("closed", wantClosed, gotClosed) && cmp("data_bytes", wantBytes, gotBytes) && cmp("probes", wantProbes, gotProbes) {
		c.Count("quiescent_audits_passed", 1)
		c.Count("connections_audited", int64(len(all)))
	}
	sts := []string{}
	for k := range wantClosed {
		sts = append(sts, strings.Split(k, "/")[0])
	}
	c.Sample(map[string]any{"statuses_observed": sts, "concurrency": conc})
}

func c15Scenario(c *vk.Ctx, r *rand.Rand, env *relayEnv, keys []KeySpec, sc string) bool {
	hub := env.Hub
	rig := env.RigRec
	if r.Intn(2) == 0 {
		rig = env.RigRaw
	}
	k := keys[r.Intn(len(keys))]
	ck := k.Codec()
	caseN := nextID(c.Batch)
	ip := caseIP4(caseN & 0xffffff)
	c.Progress("C15 scenario=%s key=%s case=%x", sc, k.ID, caseN)
	if sc == "listener-closed-before-address" {
		// a listener of its own, closed as soon as it has accepted this connection (a reload that
		// drops the port while a client is connecting)
		rig = StartTCPRig(keys, TCPRigOpts{Timeout: relayTimeout, CloseAfterAccepts: 1, Raw: r.Intn(2) == 0})
		defer rig.Close(relayB)
	}
	cl, err := DialSS(rig.Addr4(), randSrc4(r), k, randBytes(r, ck.C.SaltSize))
	if err != nil {
		c.Inconclusive("dial: " + err.Error())
		return true
	}
	defer cl.Conn.Close()
	ex := c15Expect{scenario: sc}
	probeSent := int64(-1)
	switch sc {
	case "junk":
		cl.WriteRaw(randBytes(r, 50+r.Intn(400)))
		watchClose(cl, time.Now().Add(relayTimeout+c06B))
		ex.statuses, ex.probe = []string{"ERR_CIPHER"}, true
	case "junk-fin":
		cl.WriteRaw(randBytes(r, r.Intn(300)))
		cl.Conn.CloseWrite()
		watchClose(cl, time.Now().Add(relayTimeout+c06B))
		ex.statuses, ex.probe = []string{"ERR_CIPHER"}, true
	case "empty-then-close":
		time.Sleep(time.Duration(r.Intn(20)) * time.Millisecond)
		cl.Conn.Close()
		ex.statuses, ex.probe = []string{"ERR_CIPHER"}, true
	case "replay-client":
		hub.On(ip.String(), func(tc *TargetConn) { tc.Close() })
		defer hub.Off(ip.String())
		wire := cl.Enc.Encode(append(sscodec.AddrIP(ip, hub.Port, false), 'x'), nil)
		cl.WriteRaw(wire)
		cl.Conn.CloseWrite()
		watchClose(cl, time.Now().Add(c06B))
		rig.WaitDone(cl.Local, c06B)
		cl2, err := DialSS(rig.Addr4(), randSrc4(r), k, nil)
		if err != nil {
			return true
		}
		defer cl2.Conn.Close()
		cl2.WriteRaw(wire)
		if r.Intn(2) == 0 {
			cl2.Conn.CloseWrite()
		} // else: held open - the refused replay is drained until the deadline, while other connections are classified
		watchClose(cl2, time.Now().Add(relayTimeout+c06B))
		cl = cl2
		ex.statuses, ex.probe = []string{"ERR_REPLAY_CLIENT"}, true
	case "reflect-server":
		if ck.C.SaltSize < 20 {
			return true
		}
		// obtain a server salt first
		hub.On(ip.String(), func(tc *TargetConn) { tc.Write([]byte("hello")); tc.Close() })
		defer hub.Off(ip.String())
		cl.WriteRaw(cl.Enc.Encode(append(sscodec.AddrIP(ip, hub.Port, false), 'x'), nil))
		cl.Conn.SetReadDeadline(time.Now().Add(c06B))
		raw := make([]byte, 0, 200)
		buf := make([]byte, 200)
		for {
			n, err := cl.Conn.Read(buf)
			raw = append(raw, buf[:n]...)
			if err != nil {
				break
			}
		}
		cl.Conn.Close()
		rig.WaitDone(cl.Local, c06B)
		if len(raw) < 50 {
			c.Inconclusive("reflect-server: no server output collected")
			return true
		}
		cl2, err := DialSS(rig.Addr4(), randSrc4(r), k, nil)
		if err != nil {
			return true
		}
		defer cl2.Conn.Close()
		cl2.WriteRaw(raw)
		if r.Intn(2) == 0 {
			cl2.Conn.CloseWrite()
		}
		watchClose(cl2, time.Now().Add(relayTimeout+c06B))
		cl = cl2
		if r.Intn(2) == 0 {
			// presented once more: the outcome is still "reflected server salt", whatever a cache remembers
			rig.WaitDone(cl2.Local, c06B)
			cl3, err := DialSS(rig.Addr4(), randSrc4(r), k, nil)
			if err != nil {
				return true
			}
			defer cl3.Conn.Close()
			cl3.WriteRaw(raw)
			cl3.Conn.CloseWrite()
			watchClose(cl3, time.Now().Add(relayTimeout+c06B))
			cl = cl3
		}
		ex.statuses, ex.probe = []string{"ERR_REPLAY_SERVER"}, true
	case "bad-address-type":
		cl.WriteRaw(cl.Enc.Encode(append([]byte{byte(5 + r.Intn(200))}, randBytes(r, 30)...), nil))
		time.Sleep(30 * time.Millisecond)
		cl.Conn.Close()
		ex.statuses, ex.authed = []string{"ERR_READ_ADDRESS"}, true
	case "address-stalled":
		// a client with a valid key sends the first bytes of its address and then nothing until the read
		// deadline: it authenticated, so this is not a probe, whatever made the address unreadable
		part := sscodec.AddrIP(ip, hub.Port, false)[:1+r.Intn(5)]
		if r.Intn(2) == 0 {
			part = []byte{3, byte(20 + r.Intn(200)), 'a', 'b'}
		}
		cl.WriteRaw(cl.Enc.Encode(part, nil))
		time.Sleep(relayTimeout + 400*time.Millisecond)
		cl.Conn.Close() // (the server drains an authenticated stream that turned unreadable until the client closes)
		ex.statuses, ex.authed = []string{"ERR_READ_ADDRESS"}, true
		c.Count("authenticated_clients_stalled_mid_address", 1)
	case "dest-loopback":
		cl.WriteRaw(cl.Enc.Encode(sscodec.AddrIP(net.IPv4(127, 0, 0, byte(1+r.Intn(200))), hub.Port, false), nil))
		watchClose(cl, time.Now().Add(c06B))
		ex.statuses, ex.authed = []string{"ERR_ADDRESS_INVALID"}, true
	case "dest-private":
		cl.WriteRaw(cl.Enc.Encode(sscodec.AddrIP(net.IPv4(10, byte(r.Intn(256)), 1, 1), hub.Port, false), nil))
		watchClose(cl, time.Now().Add(c06B))
		ex.statuses, ex.authed = []string{"ERR_ADDRESS_PRIVATE"}, true
	case "dest-mapped-private":
		cl.WriteRaw(cl.Enc.Encode(sscodec.AddrIP(net.IPv4(192, 168, 1, byte(1+r.Intn(200))), hub.Port, true), nil))
		watchClose(cl, time.Now().Add(c06B))
		ex.statuses, ex.authed = []string{"ERR_ADDRESS_PRIVATE"}, true
	case "connect-refused":
		cl.WriteRaw(cl.Enc.Encode(sscodec.AddrIP(ip, 9, false), nil)) // nothing listens on port 9
		watchClose(cl, time.Now().Add(c06B))
		ex.statuses, ex.authed = []string{"ERR_CONNECT"}, true
	case "client-rst-mid-relay":
		hub.On(ip.String(), func(tc *TargetConn) {
			buf := make([]byte, 4096)
			for {
				tc.SetReadDeadline(time.Now().Add(c06B))
				if _, err := tc.Read(buf); err != nil {
					break
				}
			}
			tc.Close()
		})
		defer hub.Off(ip.String())
		cl.WriteRaw(cl.Enc.Encode(append(sscodec.AddrIP(ip, hub.Port, false), randBytes(r, 500)...), nil))
		time.Sleep(40 * time.Millisecond)
		cl.Conn.SetLinger(0)
		cl.Conn.Close()
		ex.statuses, ex.authed = []string{"ERR_RELAY_CLIENT"}, true
	case "cipher-error-mid-relay":
		hub.On(ip.String(), func(tc *TargetConn) {
			buf := make([]byte, 4096)
			for {
				tc.SetReadDeadline(time.Now().Add(c06B))
				if _, err := tc.Read(buf); err != nil {
					break
				}
			}
			tc.Close()
		})
		defer hub.Off(ip.String())
		wire := cl.Enc.Chunk(append(sscodec.AddrIP(ip, hub.Port, false), randBytes(r, 50)...), -1)
		bad := cl.Enc.Chunk(randBytes(r, 100), -1)
		bad[len(bad)-3] ^= 4
		cl.WriteRaw(append(wire, bad...))
		time.Sleep(40 * time.Millisecond)
		cl.Conn.Close()
		ex.statuses, ex.authed = []string{"ERR_RELAY_CLIENT"}, true
	case "target-rst-mid-answer":
		hub.On(ip.String(), func(tc *TargetConn) {
			buf := make([]byte, 4096)
			tc.SetReadDeadline(time.Now().Add(c06B))
			tc.Read(buf)
			tc.Write(randBytes(rand.New(rand.NewSource(int64(caseN))), 300))
			time.Sleep(20 * time.Millisecond)
			tc.SetLinger(0) // RST
			tc.Close()
		})
		defer hub.Off(ip.String())
		cl.WriteRaw(cl.Enc.Encode(append(sscodec.AddrIP(ip, hub.Port, false), randBytes(r, 20)...), nil))
		// idle client: just waits for the end, then closes normally
		cl.ReadAllPlain(time.Now().Add(c06B))
		cl.Conn.CloseWrite()
		ex.statuses, ex.authed = []string{"ERR_RELAY_TARGET"}, true
	case "client-rst-while-target-streams":
		hub.On(ip.String(), func(tc *TargetConn) {
			buf := make([]byte, 64)
			tc.SetReadDeadline(time.Now().Add(c06B))
			tc.Read(buf)
			chunk := randBytes(rand.New(rand.NewSource(int64(caseN))), 32*1024)
			for i := 0; i < 200; i++ { // ~6 MiB: more than the socket buffers hold
				tc.SetWriteDeadline(time.Now().Add(c06B))
				if _, err := tc.Write(chunk); err != nil {
					break
				}
			}
			tc.Close()
		})
		defer hub.Off(ip.String())
		cl.WriteRaw(cl.Enc.Encode(append(sscodec.AddrIP(ip, hub.Port, false), 'g'), nil))
		b := make([]byte, 10000)
		cl.Conn.SetReadDeadline(time.Now().Add(c06B))
		cl.Conn.Read(b)
		time.Sleep(30 * time.Millisecond)
		cl.Conn.SetLinger(0) // RST while the proxy is writing to us
		cl.Conn.Close()
		ex.statuses, ex.authed = []string{"ERR_RELAY_CLIENT", "ERR_RELAY_TARGET"}, true
	case "cipher-error-after-target-finished", "truncated-chunk-after-target-finished":
		// termination order: the target answers and closes first, THEN the client's stream breaks
		hub.On(ip.String(), func(tc *TargetConn) {
			buf := make([]byte, 64)
			tc.SetReadDeadline(time.Now().Add(c06B))
			tc.Read(buf)
			tc.Write([]byte("answer"))
			tc.Close()
		})
		defer hub.Off(ip.String())
		cl.WriteRaw(cl.Enc.Encode(append(sscodec.AddrIP(ip, hub.Port, false), 'q'), nil))
		if got, err := cl.ReadAllPlain(time.Now().Add(c06B)); err != nil || string(got) != "answer" {
			c.Inconclusive("scenario " + sc + ": the answer did not arrive")
			return true
		}
		time.Sleep(20 * time.Millisecond)
		bad := cl.Enc.Chunk(randBytes(r, 100), -1)
		if sc == "cipher-error-after-target-finished" {
			bad[len(bad)-3] ^= 4
			cl.WriteRaw(bad)
			time.Sleep(40 * time.Millisecond)
			cl.Conn.Close()
		} else {
			cl.WriteRaw(bad[:len(bad)-7]) // the stream ends in the middle of a chunk
			cl.Conn.CloseWrite()
			watchClose(cl, time.Now().Add(c06B))
		}
		ex.statuses, ex.authed = []string{"ERR_RELAY_CLIENT"}, true
	case "listener-closed-before-address":
		var reached atomic.Int64
		hub.On(ip.String(), func(tc *TargetConn) {
			reached.Add(1)
			buf := make([]byte, 64)
			tc.SetReadDeadline(time.Now().Add(c06B))
			n, _ := tc.Read(buf)
			tc.Write(buf[:n])
			tc.Close()
		})
		defer hub.Off(ip.String())
		select {
		case <-rig.done: // serving has stopped accepting (the handler keeps running)
		case <-time.After(50 * time.Millisecond):
		}
		cl.WriteRaw(cl.Enc.Encode(append(sscodec.AddrIP(ip, hub.Port, false), 'w'), nil))
		got, _ := cl.ReadAllPlain(time.Now().Add(c06B))
		cl.Conn.Close()
		rig.WaitDone(cl.Local, c06B)
		ex.authed = true
		if reached.Load() == 0 || string(got) != "w" {
			// the client was dropped without its request reaching the target: any status but OK
			ex.statuses = []string{"ERR_CONNECT"}
			c.Count("dropped_by_listener_shutdown_before_dial", 1)
		} else {
			ex.statuses = []string{"OK"}
		}
	case "client-fin-immediately":
		hub.On(ip.String(), func(tc *TargetConn) {
			buf := make([]byte, 4096)
			for {
				tc.SetReadDeadline(time.Now().Add(c06B))
				if _, err := tc.Read(buf); err != nil {
					break
				}
			}
			tc.Write([]byte("bye"))
			tc.Close()
		})
		defer hub.Off(ip.String())
		cl.WriteRaw(cl.Enc.Encode(sscodec.AddrIP(ip, hub.Port, false), nil))
		cl.Conn.CloseWrite()
		cl.ReadAllPlain(time.Now().Add(c06B))
		ex.statuses, ex.authed = []string{"OK"}, true
	}
	if ex.probe {
		probeSent = cl.SentBytes()
	}
	rec, done := rig.WaitDone(cl.Local, relayTimeout+c06B)
	if cl.LateBy(relayTimeout / 2) {
		c.Inconclusive("scenario " + sc + ": the harness client wrote later than half the handshake timeout after dialling (loaded machine)")
		return true
	}
	c.Eval(fmt.Sprintf("scenario|%s|%s|raw=%v", sc, k.Cipher, rig.opts.Raw))
	if !done || rec == nil {
		c.Violation("C15/handler-did-not-finish", map[string]any{"scenario": sc})
		return false
	}
	sn := rec.Snap()
	if !judgeSeq(c, ex, sn, probeSent, keys, k) {
		return false
	}
	// counters never exceed what the client put on the wire / what the server socket moved
	d := sn.Closed[0].Data
	if d.ClientProxy > cl.SentBytes() {
		c.Violation("C15/counter-exceeds-wire", map[string]any{"scenario": sc, "client_proxy": d.ClientProxy, "client_sent": cl.SentBytes()})
		return false
	}
	if !rig.opts.Raw && (d.ClientProxy != sn.BytesRead || d.ProxyClient != sn.BytesWritten) {
		c.Violation("C15/byte-counter-differs-from-server-socket", map[string]any{"scenario": sc, "reported_cp": d.ClientProxy, "socket_read": sn.BytesRead, "reported_pc": d.ProxyClient, "socket_written": sn.BytesWritten})
		return false
	}
	c.Count("scenario_"+sn.Status(), 1)
	return true
}

func init() {
	vk.Register(&vk.Spec{
		ID:    "C15",
		Level: "exploration",
		Rule: "clean exchanges from the relay case engine (all payload/chunking/half-close variety) + 17 failure scenarios (junk with/without FIN, empty, client replay, reflected server salt, bad address type, loopback/private/mapped-private destination, connect refused, client RST and cipher error mid-relay, target RST mid-answer, immediate client FIN, broken client stream after the target has finished, listener closed between accept and dial), at concurrency 1/4/16/64, recording-wrapper and raw conns; metrics = tee(recorder, real Prometheus collectors); " +
			"per connection: call-sequence oracle, status in the scenario's expected set, counters vs independent socket-side counts; at quiescence gathered families vs recorder sums; class = (scenario|mode, cipher, raw, size buckets)",
		Assumptions: []string{"client RST mid-relay is expected as ERR_RELAY_CLIENT and an idle-client target RST as ERR_RELAY_TARGET (singletons: the other direction is clean by construction)"},
		Batches:     func(t string) int { return map[string]int{"quick": 4, "thorough": 16}[t] },
		Parallel:    func(t string) int { return 4 },
		Timeout:     func(t string) time.Duration { return 25 * time.Minute },
		Run: func(c *vk.Ctx) {
			for _, s := range []string{"clean_exchanges_counters_equal", "quiescent_audits_passed", "scenario_ERR_CIPHER", "scenario_ERR_REPLAY_CLIENT", "scenario_ERR_REPLAY_SERVER", "scenario_ERR_READ_ADDRESS",
				"scenario_ERR_ADDRESS_INVALID", "scenario_ERR_ADDRESS_PRIVATE", "scenario_ERR_CONNECT", "scenario_ERR_RELAY_CLIENT", "scenario_ERR_RELAY_TARGET", "dropped_by_listener_shutdown_before_dial", "crowd_connections_all_reported"} {
				c.Require(s)
			}
			c15Run(c)
		},
	})
}
