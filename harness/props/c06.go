package props

import (
	"bytes"
	"fmt"
	"io"
	"math/rand"
	"net"
	"sync"
	"sync/atomic"
	"time"

	"github.com/Jigsaw-Code/outline-ss-server/service"

	"verifharness/lab"
	"verifharness/sscodec"
	"verifharness/vk"
)

// C06: unauthenticated TCP input is absorbed silently until the timeout; after
// authentication an invalid stream is drained rather than actively closed.

const (
	c06T = 700 * time.Millisecond // handshake timeout of the rigs
	c06B = 10 * time.Second       // bound for "closes within bounded time"
)

type probeCase struct {
	ID      uint64 `json:"id"`
	Class   string `json:"class"`
	Cipher  string `json:"cipher"`
	Len     int    `json:"len"`
	FIN     bool   `json:"client_fin"`
	Rig     string `json:"rig"`
	Dribble bool   `json:"client_keeps_writing"`
	SrcIP   string `json:"client_ip,omitempty"` // fixed client address (default: a random one per probe)
}

// minimum observed time from "before dialling" to the server's close, per rig and per
// empty/non-empty probe: the deadline must not depend on content or length.
var (
	c06LatMu  sync.Mutex
	c06MinLat = map[string]time.Duration{}
	c06LatN   = map[string]int{}
)

type c06Rig struct {
	name  string
	rig   *TCPRig
	keys  []KeySpec
	cache bool
}

type closeObs struct {
	bytes    int
	kind     string // eof, reset, timeout, other
	after    time.Duration
	writeErr string
}

// watchClose reads until the connection ends or until `until`; returns what the client saw.
var c06TypeSeq int64
var c06OddTypes = []byte{5, 0, 2, 6, 0xff, 5, 0x7f, 0x80}

func watchClose(cl *SSClient, until time.Time) closeObs {
	o := closeObs{}
	buf := make([]byte, 4096)
	for {
		cl.Conn.SetReadDeadline(until)
		n, err := cl.Conn.Read(buf)
		o.bytes += n
		if err != nil {
			o.after = time.Since(cl.T0)
			switch {
			case err == io.EOF:
				o.kind = "eof"
			case isTimeout(err):
				o.kind = "timeout"
			case isReset(err):
				o.kind = "reset"
			default:
				o.kind = "other:" + err.Error()
			}
			return o
		}
	}
}

func c06BuildValid(r *rand.Rand, k KeySpec, hubPort int, caseN uint64, extra int) ([]byte, []byte) {
	ck := k.Codec()
	salt := randBytes(r, ck.C.SaltSize)
	enc := sscodec.NewStreamEncoder(ck, salt)
	pt := append(sscodec.AddrIP(caseIP4(caseN&0xffffff), hubPort, false), randBytes(r, extra)...)
	return enc.Encode(pt, []int{200}), salt
}

func c06Unauth(c *vk.Ctx, r *rand.Rand, rg *c06Rig, hub *TargetHub, pc probeCase, input []byte) bool {
	c.Progress("C06 unauth %+v", pc)
	before := hub.Accepted.Load()
	src := randSrc4(r)
	if pc.SrcIP != "" {
		src = net.ParseIP(pc.SrcIP).To4()
	}
	cl, err := DialSS(rg.rig.Addr4(), src, rg.keys[0], nil)
	if err != nil {
		c.Inconclusive("dial: " + err.Error())
		return true
	}
	defer cl.Conn.Close()
	// large inputs are written from a goroutine so that a server that stops reading shows up
	wdone := make(chan error, 1)
	go func() { wdone <- cl.WriteRaw(input) }()
	late := false
	if pc.FIN {
		<-wdone
		late = time.Since(cl.T0) > c06T/2
		cl.Conn.CloseWrite()
	} else if len(input) > 0 && len(input) <= 100000 {
		<-wdone
		late = time.Since(cl.T0) > c06T/2
	}
	stopDribble := make(chan struct{})
	var dw sync.WaitGroup
	if pc.Dribble {
		dw.Add(1)
		go func() {
			defer dw.Done()
			for i := 0; ; i++ {
				select {
				case <-stopDribble:
					return
				case <-time.After(40 * time.Millisecond):
				}
				if cl.WriteRaw([]byte{byte(i)}) != nil {
					return
				}
			}
		}()
	}
	obs := watchClose(cl, cl.T0.Add(c06T+c06B))
	close(stopDribble)
	dw.Wait()
	rec, done := rg.rig.WaitDone(cl.Local, c06B)
	c.Eval(fmt.Sprintf("unauth|%s|%s|len=%s|fin=%v|dribble=%v|%s", pc.Class, pc.Cipher, sizeBucket(pc.Len), pc.FIN, pc.Dribble, rg.name))
	wit := map[string]any{"case": pc, "client_saw": fmt.Sprintf("%+v", obs)}
	if rec != nil {
		sn := rec.Snap()
		wit["server_seq"] = sn.Seq
		wit["server_status"] = sn.Status()
	}
	if obs.bytes != 0 {
		c.Violation("C06/bytes-sent-to-unauthenticated-client", wit)
		return false
	}
	_ = before // (targets are shared between concurrent cases; unexpected dials are audited at the end of the run)
	if !pc.FIN && !pc.Dribble && obs.kind == "eof" {
		lat := obs.after
		c06LatMu.Lock()
		key := rg.name + "|data"
		if pc.Len == 0 {
			key = rg.name + "|empty"
		}
		if cur, ok := c06MinLat[key]; !ok || lat < cur {
			c06MinLat[key] = lat
		}
		c06LatN[key]++
		c06LatMu.Unlock()
	}
	if !pc.FIN {
		if obs.kind == "timeout" {
			c.Violation("C06/probe-connection-not-closed-within-bound", wit)
			return false
		}
		if obs.after < c06T {
			c.Violation("C06/probe-closed-before-timeout", wit)
			return false
		}
		if !pc.Dribble && obs.kind != "eof" {
			c.Violation("C06/probe-not-closed-normally", wit)
			return false
		}
	} else {
		if obs.kind != "eof" {
			c.Violation("C06/probe-with-fin-not-closed-normally", wit)
			return false
		}
	}
	if !done || rec == nil {
		c.Violation("C06/handler-did-not-finish", wit)
		return false
	}
	sn := rec.Snap()
	if len(sn.Probes) != 1 {
		c.Violation("C06/probe-not-reported-once", wit)
		return false
	}
	if late {
		c.Inconclusive("probe written later than half the handshake timeout after dialling (loaded machine): byte accounting not judged")
		return true
	}
	if !pc.Dribble && sn.Probes[0].Bytes != cl.SentBytes() {
		wit["probe_bytes"] = sn.Probes[0].Bytes
		wit["client_sent"] = cl.SentBytes()
		c.Violation("C06/server-did-not-read-everything-the-client-sent", wit)
		return false
	}
	if rg.rig.opts.Raw {
		return true
	}
	// server-side view (recording wrapper): no write at all, one handshake deadline = accept + T,
	// and the close not before that deadline unless the client sent a FIN.
	if sn.Writes != 0 {
		c.Violation("C06/server-wrote-on-unauthenticated-connection", wit)
		return false
	}
	var dls []time.Time
	var closeT time.Time
	for _, e := range sn.ConnEvents {
		if (e.Kind == "setReadDeadline" || e.Kind == "setDeadline") && !e.DL.IsZero() {
			dls = append(dls, e.DL)
		}
		if e.Kind == "close" && closeT.IsZero() {
			closeT = e.T
		}
	}
	if len(dls) != 1 {
		wit["deadlines_set"] = len(dls)
		c.Violation("C06/handshake-deadline-not-set-exactly-once", wit)
		return false
	}
	off := dls[0].Sub(sn.Accepted) - c06T
	if off < 0 || off > 3*time.Second {
		wit["deadline_minus_accept"] = dls[0].Sub(sn.Accepted).String()
		c.Violation("C06/handshake-deadline-differs-from-timeout", wit)
		return false
	}
	if !pc.FIN && closeT.Before(dls[0]) {
		wit["closed_before_deadline_by"] = dls[0].Sub(closeT).String()
		c.Violation("C06/probe-closed-before-its-deadline", wit)
		return false
	}
	return true
}

// c06AuthThenInvalid: the stream authenticates, then turns invalid; while the client keeps the
// connection open (and keeps writing) the server must not close it.
func c06AuthThenInvalid(c *vk.Ctx, r *rand.Rand, rg *c06Rig, hub *TargetHub, class string) bool {
	k := rg.keys[r.Intn(len(rg.keys))]
	ck := k.Codec()
	caseN := nextID(c.Batch)
	ip := caseIP4(caseN & 0xffffff)
	// target: reads until EOF, then closes (what real servers do)
	tgtEOF := make(chan struct{}, 1)
	hub.On(ip.String(), func(tc *TargetConn) {
		buf := make([]byte, 4096)
		for {
			tc.SetReadDeadline(time.Now().Add(30 * time.Second))
			if _, err := tc.Read(buf); err != nil {
				break
			}
		}
		select {
		case tgtEOF <- struct{}{}:
		default:
		}
		tc.Close()
	})
	defer hub.Off(ip.String())
	salt := randBytes(r, ck.C.SaltSize)
	enc := sscodec.NewStreamEncoder(ck, salt)
	var wire []byte
	switch class {
	case "corrupt-data-chunk-mid-relay":
		wire = append(wire, enc.Chunk(sscodec.AddrIP(ip, hub.Port, false), -1)...)
		wire = append(wire, enc.Chunk(randBytes(r, 100), -1)...)
		bad := enc.Chunk(randBytes(r, 200), -1)
		bad[len(bad)-1-r.Intn(16)] ^= 0x20 // payload tag
		wire = append(wire, bad...)
	case "corrupt-length-mid-relay":
		wire = append(wire, enc.Chunk(sscodec.AddrIP(ip, hub.Port, false), -1)...)
		bad := enc.Chunk(randBytes(r, 50), -1)
		bad[r.Intn(2)] ^= 0x01
		wire = append(wire, bad...)
	case "corrupt-address-chunk":
		first := enc.Chunk(sscodec.AddrIP(ip, hub.Port, false), -1)
		first[len(first)-1-r.Intn(16)] ^= 0x01
		wire = first
	case "unparseable-address-type":
		if n := atomic.AddInt64(&c06TypeSeq, 1); n%3 == 0 {
			wire = enc.Chunk(append([]byte{byte(5 + r.Intn(250))}, randBytes(r, 20)...), -1)
		} else if n%3 == 1 {
			// the values next to the three known types, in turn (5 is the first byte of a SOCKS5 greeting,
			// 2 the BIND command, 0 and 0xff the ends of the range): every one of them is drained alike
			t := c06OddTypes[int(n/3)%len(c06OddTypes)]
			wire = enc.Chunk(append([]byte{t}, randBytes(r, 20)...), -1)
			class = "address-type-next-to-known"
		} else {
			// a valid type with flag bits set in the high nibble (0x10 was the one-time-auth flag of the old
			// protocol) in front of a perfectly formed address: still not an address type the server knows
			t := pick(r, []byte{0x11, 0x13, 0x14, 0x21, 0x41, 0x81, 0x83, 0xc4, 0xf1})
			var a []byte
			switch t & 0x0f {
			case 1:
				a = sscodec.AddrIP(caseIP4(caseN&0xffffff), hub.Port, false)
			case 3:
				a = sscodec.AddrDomain(caseIP4(caseN&0xffffff).String(), hub.Port)
			default:
				a = sscodec.AddrIP(caseIP6(caseN&0xffffff), hub.Port, false)
			}
			a[0] = t
			wire = enc.Chunk(append(a, randBytes(r, 10)...), -1)
			class = "address-type-with-flag-bits"
		}
	case "truncated-address-then-garbage":
		wire = append(wire, enc.Chunk([]byte{3, 200, 'a', 'b'}, -1)...) // domain of 200 bytes announced, 2 given
		wire = append(wire, randBytes(r, 300)...)
	}
	pc := probeCase{ID: caseN, Class: class, Cipher: k.Cipher, Len: len(wire), Rig: rg.name}
	c.Progress("C06 auth-then-invalid %+v", pc)
	cl, err := DialSS(rg.rig.Addr4(), randSrc4(r), k, nil)
	if err != nil {
		c.Inconclusive("dial: " + err.Error())
		return true
	}
	defer cl.Conn.Close()
	cl.WriteRaw(wire)
	// keep writing while observing for 2 x timeout
	stop := make(chan struct{})
	var dw sync.WaitGroup
	dw.Add(1)
	go func() {
		defer dw.Done()
		for {
			select {
			case <-stop:
				return
			case <-time.After(30 * time.Millisecond):
			}
			if cl.WriteRaw(randBytes(rand.New(rand.NewSource(int64(caseN))), 20)) != nil {
				return
			}
		}
	}()
	window := 2 * c06T
	obs := watchClose(cl, time.Now().Add(window))
	close(stop)
	dw.Wait()
	c.Eval(fmt.Sprintf("auth-then-invalid|%s|%s|%s", class, k.Cipher, rg.name))
	wit := map[string]any{"case": pc, "client_saw": fmt.Sprintf("%+v", obs), "window": window.String()}
	if rec := rg.rig.Rec(cl.Local, time.Second); rec != nil {
		wit["server_seq"] = rec.Snap().Seq
		wit["server_status"] = rec.Snap().Status()
	}
	if obs.kind != "timeout" {
		c.Violation("C06/authenticated-invalid-stream-actively-closed", wit)
		return false
	}
	if obs.bytes != 0 {
		c.Violation("C06/bytes-sent-on-invalid-stream", wit)
		return false
	}
	// once the client closes, the server lets go promptly
	cl.Conn.Close()
	if _, done := rg.rig.WaitDone(cl.Local, c06B); !done {
		c.Violation("C06/server-does-not-close-after-client-closed", wit)
		return false
	}
	c.Count("auth_then_invalid_held_open", 1)
	return true
}

func c06Run(c *vk.Ctx) {
	lab.MustSetup(c.RunDir)
	r := c.Rng
	hub := StartTargetHub(0)
	defer hub.Close()
	mk := func(name string, n int, cache bool, raw bool, ciphers []string) *c06Rig {
		keys := RandKeys(r, n, ciphers, 0.05)
		var rc *service.ReplayCache
		if cache {
			cc := service.NewReplayCache(1000)
			rc = &cc
		}
		return &c06Rig{name: name, rig: StartTCPRig(keys, TCPRigOpts{Timeout: c06T, Replay: rc, Raw: raw}), keys: keys, cache: cache}
	}
	mgrKeys := RandKeys(r, 3, nil, 0)
	mgrRig := &c06Rig{name: "3keys/nocache/listener-manager", keys: mgrKeys,
		rig: StartTCPRig(mgrKeys, TCPRigOpts{Timeout: c06T, ViaManager: true, ManagerAddr: fmt.Sprintf("203.0.113.10:%d", freePort())})}
	// a service without any key (services: entry with keys: []): everything is a probe there
	noKeys := &c06Rig{name: "0keys/nocache", keys: []KeySpec{{ID: "not-configured", Cipher: pick(r, cipherNames), Secret: randSecret(r)}},
		rig: StartTCPRig(nil, TCPRigOpts{Timeout: c06T})}
	defer noKeys.rig.Close(5 * time.Second)
	rigs := []*c06Rig{
		mgrRig,
		mk("1key/nocache", 1, false, false, []string{pick(r, cipherNames)}),
		mk("12keys/cache", 12, true, false, nil),
		mk("100keys/cache/raw", 100, true, true, nil),
	}
	defer func() {
		for _, rg := range rigs {
			rg.rig.Close(5 * time.Second)
		}
	}()
	type job func(r *rand.Rand) bool
	var jobs []job
	lens := []int{0, 1, 10, 49, 50, 51, 100, 300, 16 * 1024, 1 << 20}
	nUn := c.N(70, 400)
	for i := 0; i < nUn; i++ {
		rg := rigs[r.Intn(len(rigs))]
		k := rg.keys[r.Intn(len(rg.keys))]
		pc := probeCase{ID: nextID(c.Batch), Cipher: k.Cipher, FIN: r.Intn(3) == 0, Rig: rg.name}
		var input []byte
		switch r.Intn(7) {
		case 0, 1:
			pc.Class = "random"
			l := pick(r, lens)
			if l > 1000 && c.Tier == "quick" && r.Intn(3) > 0 {
				l = 300
			}
			input = randBytes(r, l)
		case 2:
			pc.Class = "truncated-valid"
			v, _ := c06BuildValid(r, k, hub.Port, pc.ID, 100)
			ss := k.Codec().C.SaltSize
			cut := pick(r, []int{ss - 1, ss, ss + 1, ss + 2 + 15, 49})
			input = v[:cut]
		case 3:
			pc.Class = "bitflip-prefix"
			v, _ := c06BuildValid(r, k, hub.Port, pc.ID, 100)
			ss := k.Codec().C.SaltSize
			off := pick(r, []int{r.Intn(ss), ss + r.Intn(2), ss + 2 + r.Intn(16)})
			v[off] ^= 1 << uint(r.Intn(8))
			input = v
		case 4:
			pc.Class = "wrong-key"
			wk := KeySpec{ID: "x", Cipher: k.Cipher, Secret: k.Secret + "!"}
			input, _ = c06BuildValid(r, wk, hub.Port, pc.ID, 50)
		case 5:
			if !rg.cache {
				pc.Class = "random"
				input = randBytes(r, 77)
				break
			}
			pc.Class = "replay"
			// first presentation is served (target script: echo and close), the second is the probe
			v, _ := c06BuildValid(r, k, hub.Port, pc.ID, 30)
			ip := caseIP4(pc.ID & 0xffffff)
			hub.On(ip.String(), func(tc *TargetConn) { tc.Close() })
			input = v
			first := v
			jobs = append(jobs, func(jr *rand.Rand) bool {
				cl, err := DialSS(rg.rig.Addr4(), randSrc4(jr), k, nil)
				if err != nil {
					return true
				}
				cl.WriteRaw(first)
				cl.Conn.CloseWrite()
				watchClose(cl, time.Now().Add(c06B))
				cl.Conn.Close()
				rg.rig.WaitDone(cl.Local, c06B)
				ok := c06Unauth(c, jr, rg, hub, pc, input)
				hub.Off(ip.String())
				if ok {
					c.Count("replay_probes", 1)
				}
				return ok
			})
			continue
		default:
			pc.Class = "random-dribble"
			pc.Dribble, pc.FIN = true, false
			input = randBytes(r, pick(r, []int{0, 20, 60}))
		}
		pc.Len = len(input)
		in := input
		jobs = append(jobs, func(jr *rand.Rand) bool {
			ok := c06Unauth(c, jr, rg, hub, pc, in)
			if ok {
				c.Count("unauthenticated_probes_absorbed", 1)
				if pc.Len >= 16*1024 {
					c.Count("large_probes_fully_read", 1)
				}
			}
			return ok
		})
		if i < 2 {
			c.Sample(pc)
		}
	}
	// plenty of silent (zero-length) and immediate probes on every rig, for the deadline comparison
	for i := 0; i < c.N(36, 120); i++ {
		rg := rigs[i%len(rigs)]
		l := 0
		if i%2 == 1 {
			l = 60 + r.Intn(100)
		}
		pc := probeCase{ID: nextID(c.Batch), Class: "deadline-comparison", Cipher: rg.keys[0].Cipher, Len: l, Rig: rg.name}
		in := randBytes(r, l)
		jobs = append(jobs, func(jr *rand.Rand) bool { return c06Unauth(c, jr, rg, hub, pc, in) })
	}
	for i := 0; i < c.N(8, 30); i++ {
		k := noKeys.keys[0]
		pc := probeCase{ID: nextID(c.Batch), Class: "service-without-keys", Cipher: k.Cipher, FIN: i%3 == 0, Rig: noKeys.name}
		var in []byte
		if i%2 == 0 {
			in, _ = c06BuildValid(r, k, hub.Port, pc.ID, 60) // a perfectly formed stream under a key nobody configured
		} else {
			in = randBytes(r, pick(r, []int{0, 10, 50, 200}))
		}
		pc.Len = len(in)
		jobs = append(jobs, func(jr *rand.Rand) bool {
			ok := c06Unauth(c, jr, noKeys, hub, pc, in)
			if ok {
				c.Count("probes_on_a_service_without_keys", 1)
			}
			return ok
		})
	}
	classes := []string{"corrupt-data-chunk-mid-relay", "corrupt-length-mid-relay", "corrupt-address-chunk", "unparseable-address-type", "truncated-address-then-garbage"}
	for i := 0; i < c.N(20, 100); i++ {
		rg := rigs[r.Intn(len(rigs))]
		class := classes[i%len(classes)]
		jobs = append(jobs, func(jr *rand.Rand) bool { return c06AuthThenInvalid(c, jr, rg, hub, class) })
	}
	r.Shuffle(len(jobs), func(i, j int) { jobs[i], jobs[j] = jobs[j], jobs[i] })
	var wg sync.WaitGroup
	ch := make(chan job)
	var failed sync.Once
	stop := make(chan struct{})
	for w := 0; w < 16; w++ {
		wg.Add(1)
		wr := c.SubRng("c06w", w)
		go func() {
			defer wg.Done()
			for j := range ch {
				select {
				case <-stop:
					continue
				default:
				}
				if !j(wr) {
					failed.Do(func() { close(stop) })
				}
			}
		}()
	}
	for _, j := range jobs {
		ch <- j
	}
	close(ch)
	wg.Wait()
	select {
	case <-stop:
		return
	default:
	}
	// the same deadline whatever the content or length: the fastest close of a silent connection
	// and the fastest close of one that sent bytes at once lie close together (minima over many
	// probes are insensitive to load spikes; both are >= the timeout by construction)
	c06LatMu.Lock()
	for _, rg := range rigs {
		e, d := c06MinLat[rg.name+"|empty"], c06MinLat[rg.name+"|data"]
		if c06LatN[rg.name+"|empty"] >= 4 && c06LatN[rg.name+"|data"] >= 4 {
			diff := e - d
			if diff < 0 {
				diff = -diff
			}
			c.Count("deadline_comparisons", 1)
			if diff > 450*time.Millisecond {
				c.Violation("C06/deadline-depends-on-probe-content", map[string]any{"rig": rg.name, "fastest_close_silent_probe": e.String(), "fastest_close_probe_with_data": d.String(), "timeout": c06T.String()})
				c06LatMu.Unlock()
				return
			}
		}
	}
	c06LatMu.Unlock()
	// No target may have been contacted on behalf of input that never authenticated: the only
	// addresses with a script are those of the replay/auth-then-invalid cases.
	if u := hub.UnexpectedList(); len(u) > 0 {
		c.Violation("C06/target-contacted-for-unauthenticated-input", u[:min(len(u), 5)])
		return
	}
	// History and company: a client address with hundreds of failed handshakes behind it (a scanner,
	// a NAT full of misconfigured clients) is absorbed like any other - also while legitimate
	// clients authenticate from that same address and from another one, with the same keys
	// (every such authentication changes which key was last used from where).
	for ri, rg := range []*c06Rig{rigs[0], rigs[2], rigs[3]} {
		ip := net.IPv4(198, 51, 100, byte(60+ri)).To4()
		other := net.IPv4(198, 51, 100, byte(70+ri)).To4()
		stopLegit := make(chan struct{})
		var lw sync.WaitGroup
		var legitOK atomic.Int64
		for w := 0; w < 4; w++ {
			lw.Add(1)
			lr := c.SubRng("c06legit", ri*8+w)
			go func(w int) {
				defer lw.Done()
				for i := 0; ; i++ {
					select {
					case <-stopLegit:
						return
					default:
					}
					k := rg.keys[lr.Intn(min(len(rg.keys), 6))]
					caseN := nextID(c.Batch)
					tip := caseIP4(caseN & 0xffffff)
					hub.On(tip.String(), echoTCP)
					src := ip
					if (i+w)%2 == 1 {
						src = other
					}
					payload := putU64(caseN)
					reply, _, err := tcpExchange(rg.rig.Addr4(), src, k, randBytes(lr, k.Codec().C.SaltSize), tip, hub.Port, payload, c06B)
					hub.Off(tip.String())
					if err == nil && bytes.Equal(reply, payload) {
						legitOK.Add(1)
					}
				}
			}(w)
		}
		nFail := c.N(300, 700)
		var fw sync.WaitGroup
		var failedN atomic.Int64
		var bad atomic.Bool
		for w := 0; w < 16; w++ {
			fw.Add(1)
			fr := c.SubRng("c06hist", ri*16+w)
			go func(w int) {
				defer fw.Done()
				for i := w; i < nFail && !bad.Load(); i += 16 {
					l := fr.Intn(130)
					pc := probeCase{ID: nextID(c.Batch), Class: "many-failures-from-one-address-amid-legitimate-clients", Cipher: rg.keys[0].Cipher, Len: l, FIN: true, Rig: rg.name, SrcIP: ip.String()}
					if !c06Unauth(c, fr, rg, hub, pc, randBytes(fr, l)) {
						bad.Store(true)
						return
					}
					failedN.Add(1)
				}
			}(w)
		}
		fw.Wait()
		if bad.Load() {
			close(stopLegit)
			lw.Wait()
			return
		}
		c.Max("max_failed_handshakes_from_one_address_before_a_probe", failedN.Load())
		for _, l := range []int{60, 0, 300} {
			pc := probeCase{ID: nextID(c.Batch), Class: "after-many-failures-from-this-address", Cipher: rg.keys[0].Cipher, Len: l, Rig: rg.name, SrcIP: ip.String()}
			if !c06Unauth(c, r, rg, hub, pc, randBytes(r, l)) {
				close(stopLegit)
				lw.Wait()
				return
			}
			c.Count("probes_after_many_failures_absorbed", 1)
		}
		close(stopLegit)
		lw.Wait()
		c.Count("legitimate_exchanges_alongside_probes", legitOK.Load())
	}
	// Probes that are being absorbed when their listener shuts down are still held until the deadline.
	rg := rigs[1]
	var pw sync.WaitGroup
	for i := 0; i < 6; i++ {
		pw.Add(1)
		go func(i int) {
			defer pw.Done()
			pr := c.SubRng("c06shutdown", i)
			cl, err := DialSS(rg.rig.Addr4(), randSrc4(pr), rg.keys[0], nil)
			if err != nil {
				return
			}
			defer cl.Conn.Close()
			cl.WriteRaw(randBytes(pr, 60+pr.Intn(100)))
			obs := watchClose(cl, cl.T0.Add(c06T+c06B))
			c.Eval("unauth|listener-closed-while-absorbing")
			if obs.after < c06T || obs.bytes != 0 {
				c.Violation("C06/probe-closed-early-when-listener-shut-down", map[string]any{"client_saw": fmt.Sprintf("%+v", obs), "timeout": c06T.String()})
				return
			}
			c.Count("probes_held_across_listener_shutdown", 1)
		}(i)
	}
	time.Sleep(c06T / 3)
	rg.rig.Ln.Close()
	pw.Wait()
	_ = net.IPv4
}

func init() {
	vk.Register(&vk.Spec{
		ID:    "C06",
		Level: "exploration",
		Rule: "unauthenticated: random bytes (0..1 MiB), truncations of valid streams at every header boundary, single-bit flips in salt/length/length-tag, wrong key, replays (cache on), with/without client FIN, client that keeps dribbling bytes, three rigs (1 key/no cache, 12 keys/cache, 100 keys/cache/raw conn), 300..700 failing probes from one address amid legitimate clients that flip the keys' last-used address, then held probes from it; plus probes being absorbed when the listener shuts down; " +
			"authenticated-then-invalid: corrupted data chunk/length mid-relay (target closes on EOF), corrupted address chunk, unparseable address type, truncated address; oracles at the client socket (bytes, close kind, close time vs t0 taken before dialling) and at the server-side conn wrapper (writes, deadline, close time); class = (phase, input class, cipher, length bucket, FIN, rig)",
		Assumptions: []string{"handshake timeout 0.7 s; 'not before the timeout' is checked against a timestamp taken before dialling (sound under load); 'within bounded time' uses B = 10 s", "observation window for 'not actively closed' is 2 x timeout while the client keeps writing"},
		Batches:     func(t string) int { return map[string]int{"quick": 4, "thorough": 16}[t] },
		Parallel:    func(t string) int { return 4 },
		Timeout:     func(t string) time.Duration { return 25 * time.Minute },
		Run: func(c *vk.Ctx) {
			c.Require("unauthenticated_probes_absorbed")
			c.Require("auth_then_invalid_held_open")
			c.Require("replay_probes")
			c.Require("probes_held_across_listener_shutdown")
			c.Require("deadline_comparisons")
			c.Require("probes_after_many_failures_absorbed")
			c.Require("legitimate_exchanges_alongside_probes")
			c.Require("probes_on_a_service_without_keys")
			c06Run(c)
		},
	})
}
