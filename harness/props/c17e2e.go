package props

import (
	"fmt"
	"math"
	"net"
	"time"

	oprom "github.com/Jigsaw-Code/outline-ss-server/prometheus"
	"github.com/Jigsaw-Code/outline-ss-server/service"
	"github.com/prometheus/client_golang/prometheus"

	"verifharness/lab"
	"verifharness/sscodec"
	"verifharness/vk"
)

// c17EndToEnd: the real stream and packet handlers feed the real collectors (controlled
// clock). Only authenticated tunnels may accrue time: connections refused as replays or as
// invalid probes are held open by the server but must contribute nothing.
func c17EndToEnd(c *vk.Ctx) {
	lab.MustSetup(c.RunDir)
	r := c.Rng
	hub := StartTargetHub(0)
	defer hub.Close()
	hub.SetDefault(func(tc *TargetConn) {
		buf := make([]byte, 2048)
		tc.SetReadDeadline(time.Now().Add(5 * time.Second))
		n, _ := tc.Read(buf)
		tc.Write(buf[:n])
		tc.Close()
	})
	for round := 0; round < c.N(2, 8); round++ {
		clk := &ctlClock{}
		oprom.VerifSetNow(clk.Now)
		sm, _ := oprom.NewServiceMetrics(&fakeDB{})
		reg := prometheus.NewRegistry()
		reg.MustRegister(sm)
		keys := RandKeys(r, 2, nil, 0)
		for i := range keys {
			keys[i].Cipher = cipherNames[(round+i)%2] // 32-byte salts: server-salt marking active
		}
		cache := service.NewReplayCache(100)
		rig := StartTCPRig(keys, TCPRigOpts{Timeout: 600 * time.Millisecond, Tee: sm, Replay: &cache, Raw: round%2 == 0})
		scrape := func() map[string]float64 {
			mfs, _ := reg.Gather()
			return counterBy(mfs, "tunnel_time_seconds", "access_key")
		}
		expect := func(what string, want map[string]float64) bool {
			got := scrape()
			for _, k := range keys {
				if math.Abs(got[k.ID]-want[k.ID]) > 1e-6 {
					c.Violation("C17/e2e/tunnel-time-mismatch", map[string]any{"step": what, "key": k.ID, "reported_s": got[k.ID], "expected_s": want[k.ID]})
					return false
				}
			}
			c.Count("e2e_scrapes_checked", 1)
			return true
		}
		want := map[string]float64{}
		k := keys[0]
		ck := k.Codec()
		src := randSrc4(r)
		// 1. a valid connection held open across a clock jump of 40 s
		salt := randBytes(r, ck.C.SaltSize)
		cl, err := DialSS(rig.Addr4(), src, k, salt)
		if err != nil {
			c.Inconclusive("c17 e2e dial: " + err.Error())
			rig.Close(5 * time.Second)
			continue
		}
		caseN := nextID(c.Batch)
		hub.On(caseIP4(caseN).String(), func(tc *TargetConn) { // target that waits for the client's FIN
			buf := make([]byte, 2048)
			for {
				if _, err := tc.Read(buf); err != nil {
					break
				}
			}
			tc.Close()
		})
		stream := cl.Enc.Encode(append(sscodec.AddrIP(caseIP4(caseN), hub.Port, false), []byte("hello")...), nil)
		cl.WriteRaw(stream)
		rec := rig.Rec(cl.Local, 5*time.Second)
		for i := 0; i < 500 && rec != nil && len(rec.Snap().Auth) == 0; i++ {
			time.Sleep(2 * time.Millisecond)
		}
		if rec == nil || len(rec.Snap().Auth) == 0 {
			c.Inconclusive("c17 e2e: the connection did not authenticate in time (loaded machine)")
			cl.Conn.Close()
			rig.Close(5 * time.Second)
			continue
		}
		clk.Advance(40 * time.Second)
		want[k.ID] += 40
		ok := expect("authenticated connection open for 40 s", want)
		cl.Conn.Close()
		rig.WaitDone(cl.Local, 10*time.Second)
		clk.Advance(25 * time.Second)
		ok = ok && expect("after close + 25 s idle", want)
		// 2. replay of the same handshake: refused, held open by the server, clock jumps 100 s
		cl2, err := DialSS(rig.Addr4(), src, k, nil)
		if err == nil && ok {
			cl2.WriteRaw(stream)
			rec2 := rig.Rec(cl2.Local, 5*time.Second)
			time.Sleep(80 * time.Millisecond)
			clk.Advance(100 * time.Second)
			ok = expect("replayed handshake held open for 100 s (ERR_REPLAY_CLIENT must not count)", want)
			cl2.Conn.Close()
			rig.WaitDone(cl2.Local, 10*time.Second)
			if rec2 != nil && rec2.Snap().Status() != "ERR_REPLAY_CLIENT" {
				c.Inconclusive("replay was not refused as ERR_REPLAY_CLIENT: " + rec2.Snap().Status())
			}
			clk.Advance(10 * time.Second)
			ok = ok && expect("after the replay connection ended", want)
			c.Count("e2e_replay_cases", 1)
		}
		// 3. junk probe held open
		cl3, err := DialSS(rig.Addr4(), src, k, nil)
		if err == nil && ok {
			cl3.WriteRaw(randBytes(r, 80))
			time.Sleep(50 * time.Millisecond)
			clk.Advance(70 * time.Second)
			ok = expect("invalid probe held open for 70 s", want)
			cl3.Conn.Close()
			rig.WaitDone(cl3.Local, 10*time.Second)
		}
		rig.Close(5 * time.Second)
		// 4. UDP: unauthenticated datagram contributes nothing; an association counts from creation to removal
		if ok {
			urig := StartUDPRig(keys, UDPRigOpts{NatTimeout: 300 * time.Millisecond, Tee: sm})
			tgt, err1 := NewUDPEnd(net.IPv4(45, 78, 0, 1).To4(), 0)
			ce, err2 := NewUDPEnd(src.To4(), 0)
			if err1 == nil && err2 == nil {
				ce.Send(randBytes(r, 90), urig.Addr4())
				time.Sleep(50 * time.Millisecond)
				clk.Advance(30 * time.Second)
				ok = expect("unauthenticated datagram + 30 s", want)
				k2 := keys[1]
				ce.Send(ssUDP(k2, randBytes(r, k2.Codec().C.SaltSize), sscodec.AddrIP(tgt.Addr.IP, tgt.Addr.Port, false), []byte("x")), urig.Addr4())
				if tgt.WaitCount(1, 3*time.Second) {
					clk.Advance(20 * time.Second)
					want[k2.ID] += 20
					ok = ok && expect("UDP association open for 20 s", want)
					// wait for real expiry, then the clock may run on without adding time
					for i := 0; i < 300; i++ {
						as := urig.Rec.ByClient(ce.Addr.String())
						if len(as) > 0 && len(as[0].Snap().Removed) > 0 {
							break
						}
						time.Sleep(10 * time.Millisecond)
					}
					clk.Advance(500 * time.Second)
					ok = ok && expect("UDP association expired, +500 s", want)
					c.Count("e2e_udp_cases", 1)
				}
				tgt.Close()
				ce.Close()
			}
			urig.Close(5 * time.Second)
		}
		// 5. UDP: an association that is still open when its listener shuts down (a reload that drops
		// the port) ends there: no tunnel time after the shutdown
		if ok {
			urig := StartUDPRig(keys, UDPRigOpts{NatTimeout: 30 * time.Second, Tee: sm})
			tgt, err1 := NewUDPEnd(net.IPv4(45, 78, 0, 2).To4(), 0)
			ce, err2 := NewUDPEnd(net.IPv4(198, 51, 100, byte(170+round%50)).To4(), 0)
			closed := false
			if err1 == nil && err2 == nil {
				k2 := keys[1]
				ce.Send(ssUDP(k2, randBytes(r, k2.Codec().C.SaltSize), sscodec.AddrIP(tgt.Addr.IP, tgt.Addr.Port, false), []byte("y")), urig.Addr4())
				if tgt.WaitCount(1, 3*time.Second) {
					clk.Advance(15 * time.Second)
					want[k2.ID] += 15
					ok = expect("UDP association open for 15 s", want)
					urig.Close(5 * time.Second)
					closed = true
					// the handler has returned; its associations are being torn down (bounded wait for the report)
					for i := 0; i < 1000; i++ {
						as := urig.Rec.ByClient(ce.Addr.String())
						if len(as) > 0 && len(as[0].Snap().Removed) > 0 {
							break
						}
						time.Sleep(10 * time.Millisecond)
					}
					clk.Advance(300 * time.Second)
					ok = ok && expect("listener shut down with the association open, +300 s", want)
					c.Count("e2e_udp_shutdown_cases", 1)
				}
				tgt.Close()
				ce.Close()
			}
			if !closed {
				urig.Close(5 * time.Second)
			}
		}
		c.Eval(fmt.Sprintf("e2e|raw=%v|%s", round%2 == 0, k.Cipher))
		if !ok {
			return
		}
	}
}
