package props

import (
	"bytes"
	"fmt"
	"io"
	"math/rand"
	"net"
	"strings"
	"sync"
	"sync/atomic"
	"syscall"
	"time"

	"verifharness/lab"
	"verifharness/sscodec"
	"verifharness/vk"
)

// C11: reload never interrupts service on retained listeners.

type window struct{ a, b time.Time }

type exch struct {
	t0, t1  time.Time
	outcome string // ok, eof0 (clean EOF, zero payload bytes), connect-failed, other
	detail  string
}

func overlaps(ws []window, t0, t1 time.Time) bool {
	for _, w := range ws {
		if t0.Before(w.b) && w.a.Before(t1) {
			return true
		}
	}
	return false
}

func startedInside(ws []window, t0 time.Time) bool {
	for _, w := range ws {
		if !t0.Before(w.a) && t0.Before(w.b) {
			return true
		}
	}
	return false
}

func c11Process(c *vk.Ctx, r *rand.Rand, round int) bool {
	hub := StartTargetHub(0)
	defer hub.Close()
	// echo-per-chunk target for long-lived relays; echo-at-EOF for short exchanges
	streamEcho := func(tc *TargetConn) {
		buf := make([]byte, 4096)
		for {
			tc.SetReadDeadline(time.Now().Add(15 * time.Minute)) // far beyond the longest round: an idle relay must not end because its TARGET got bored
			n, err := tc.Read(buf)
			if n > 0 {
				tc.Write(buf[:n])
			}
			if err != nil {
				break
			}
		}
		tc.Close()
	}
	hub.SetDefault(echoTCP)
	utgt, err := startUDPTarget("t", net.IPv4(45, 73, byte(c.Batch), 1).To4(), 7001)
	if err != nil {
		fatalf("udp target: %v", err)
	}
	defer utgt.Stop()

	port := 12000 + (round%50)*20
	retained := fmt.Sprintf("203.0.113.50:%d", port)
	legacy := round%2 == 1 // the retained endpoint is a legacy per-port key entry (":port", TCP+UDP)
	kStay := KeySpec{"stay", pick(r, cipherNames), randSecret(r)}
	kGo := KeySpec{"goes-away", pick(r, cipherNames), randSecret(r)}
	mkConf := func(gen int, withGo bool) ConfSpec {
		svc0 := SvcSpec{Listeners: []LnSpec{{"tcp", retained}, {"udp", retained}}, Keys: []KeySpec{kStay}}
		if withGo {
			svc0.Keys = append(svc0.Keys, kGo)
		}
		for i := 0; i < r.Intn(3); i++ {
			svc0.Keys = append(svc0.Keys, KeySpec{fmt.Sprintf("extra-%d-%d", gen, i), pick(r, cipherNames), randSecret(r)})
		}
		cf := ConfSpec{Services: []SvcSpec{svc0}}
		if legacy {
			cf = ConfSpec{}
			for _, k := range svc0.Keys {
				cf.Legacy = append(cf.Legacy, LegacyKey{k, port})
			}
		}
		if r.Intn(2) == 0 { // other listeners come and go
			svc1 := SvcSpec{Keys: []KeySpec{{fmt.Sprintf("other-%d", gen), pick(r, cipherNames), randSecret(r)}}}
			for i := 0; i < 1+r.Intn(2); i++ {
				svc1.Listeners = append(svc1.Listeners, LnSpec{pick(r, []string{"tcp", "udp"}), fmt.Sprintf("203.0.113.51:%d", port+1+r.Intn(5))})
			}
			// no duplicates
			seen := map[LnSpec]bool{}
			var ls []LnSpec
			for _, l := range svc1.Listeners {
				if !seen[l] {
					seen[l] = true
					ls = append(ls, l)
				}
			}
			svc1.Listeners = ls
			cf.Services = append(cf.Services, svc1)
		}
		return cf
	}
	retired := map[string]KeySpec{} // keys that were configured on the retained address at some point and are not any more
	cur := mkConf(0, true)
	overlap := time.Duration(80+r.Intn(150)) * time.Millisecond
	replayHistory := []int{500, 0, 10000}[round%3]
	srv, err := StartServer(c.RunDir, cur, ServerOpts{Env: []string{"VERIF_POINT_newStarted=" + overlap.String()}, UDPTimeout: 2 * time.Second, ReplayHistory: replayHistory})
	if err != nil {
		c.Violation("C11/server-does-not-start", err.Error())
		if srv != nil {
			srv.Stop()
		}
		return false
	}
	defer srv.Stop()
	before, _ := srv.Metrics()

	// ---- long-lived relays opened before any reload ----
	type longRelay struct {
		name  string
		cl    *SSClient
		key   KeySpec
		tgtIP net.IP
		state string
		sent  []byte
		got   *bytes.Buffer
		gmu   sync.Mutex
		tgtRx *bytes.Buffer
		tmu   *sync.Mutex
	}
	var longs []*longRelay
	open := func(name string, k KeySpec, script func(*TargetConn)) *longRelay {
		caseN := nextID(c.Batch)
		ip := caseIP4(caseN & 0xffffff)
		hub.On(ip.String(), script)
		cl, err := DialSS(retained, randSrc4(r), k, randBytes(r, k.Codec().C.SaltSize))
		if err != nil {
			c.Violation("C11/connect-to-retained-address-failed", err.Error())
			return nil
		}
		lr := &longRelay{name: name, cl: cl, key: k, tgtIP: ip, got: &bytes.Buffer{}}
		cl.WriteRaw(cl.Enc.Encode(append(sscodec.AddrIP(ip, hub.Port, false), []byte("hello-")...), nil))
		lr.sent = []byte("hello-")
		longs = append(longs, lr)
		return lr
	}
	readEcho := func(lr *longRelay, want int, within time.Duration) bool {
		deadline := time.Now().Add(within)
		lr.cl.Conn.SetReadDeadline(deadline)
		for lr.got.Len() < want {
			p, err := lr.cl.Dec.ReadChunk()
			lr.got.Write(p)
			if err != nil {
				return false
			}
		}
		return true
	}
	idle := open("idle", kStay, streamEcho)
	idleGo := open("idle-under-key-removed-by-reload", kGo, streamEcho)
	mid := open("mid-transfer", kStay, streamEcho)
	// half-closed: the target sends a greeting and half-closes; it keeps reading the client's upload
	halfRx := &bytes.Buffer{}
	var halfMu sync.Mutex
	halfEOF := make(chan struct{})
	half := open("half-closed-by-target", kGo, func(tc *TargetConn) {
		tc.Write([]byte("greeting"))
		tc.CloseWrite()
		buf := make([]byte, 4096)
		for {
			tc.SetReadDeadline(time.Now().Add(15 * time.Minute)) // far beyond the longest round: an idle relay must not end because its TARGET got bored
			n, err := tc.Read(buf)
			halfMu.Lock()
			halfRx.Write(buf[:n])
			halfMu.Unlock()
			if err != nil {
				break
			}
		}
		close(halfEOF)
		tc.Close()
	})
	if idle == nil || idleGo == nil || mid == nil || half == nil {
		return false
	}
	for _, lr := range []*longRelay{idle, idleGo, mid} {
		if !readEcho(lr, 6, 10*time.Second) {
			c.Violation("C11/long-lived-relay-not-established", lr.name)
			return false
		}
	}
	// the half-closed relay: read the greeting up to the target's FIN
	half.cl.Conn.SetReadDeadline(time.Now().Add(10 * time.Second))
	for {
		p, err := half.cl.Dec.ReadChunk()
		half.got.Write(p)
		if err != nil {
			if err != io.EOF {
				c.Violation("C11/half-closed-relay-not-established", err.Error())
				return false
			}
			break
		}
	}

	// ---- traffic ----
	stop := make(chan struct{})
	var wg sync.WaitGroup
	var emu sync.Mutex
	var exchanges []exch
	nClients := 8 + r.Intn(c.N(8, 24))
	// surge clients join only while a reload is in progress: the accept queue of the retained
	// address is never empty then, so each generation gets connections the moment it starts accepting
	var reloading atomic.Bool
	const nSurge = 32
	for i := 0; i < nClients+nSurge; i++ {
		wg.Add(1)
		cr := c.SubRng("c11c", round*64+i)
		surge := i >= nClients
		go func() {
			defer wg.Done()
			for {
				select {
				case <-stop:
					return
				default:
				}
				if surge && !reloading.Load() {
					time.Sleep(500 * time.Microsecond)
					continue
				}
				caseN := nextID(c.Batch)
				payload := putU64(caseN)
				e := exch{t0: time.Now()}
				cl, err := DialSS(retained, randSrc4(cr), kStay, randBytes(cr, kStay.Codec().C.SaltSize))
				if err != nil {
					e.t1, e.outcome, e.detail = time.Now(), "connect-failed", err.Error()
				} else {
					cl.WriteRaw(cl.Enc.Encode(append(sscodec.AddrIP(caseIP4(caseN&0xffffff), hub.Port, false), payload...), nil))
					cl.Conn.CloseWrite()
					got, err := cl.ReadAllPlain(time.Now().Add(20 * time.Second))
					cl.Conn.Close()
					e.t1 = time.Now()
					switch {
					case err == nil && bytes.Equal(got, payload):
						e.outcome = "ok"
					case err == nil && len(got) == 0:
						e.outcome = "eof0"
					default:
						e.outcome, e.detail = "other", fmt.Sprintf("got %d bytes, err %v", len(got), err)
					}
				}
				emu.Lock()
				exchanges = append(exchanges, e)
				emu.Unlock()
				if surge {
					continue
				}
				time.Sleep(time.Duration(cr.Intn(4)) * time.Millisecond)
			}
		}()
	}
	// mid-transfer relay: keeps streaming during all reloads
	var midFail atomic.Value
	wg.Add(1)
	go func() {
		defer wg.Done()
		seq := 0
		for {
			select {
			case <-stop:
				return
			default:
			}
			chunk := []byte(fmt.Sprintf("[%06d]", seq))
			seq++
			if err := mid.cl.WriteRaw(mid.cl.Enc.Encode(chunk, nil)); err != nil {
				midFail.Store("write: " + err.Error())
				return
			}
			mid.sent = append(mid.sent, chunk...)
			if !readEcho(mid, len(mid.sent), 15*time.Second) {
				midFail.Store(fmt.Sprintf("echo of chunk %d did not arrive", seq-1))
				return
			}
			time.Sleep(3 * time.Millisecond)
		}
	}()
	// UDP sender
	var udpIDs []uint64
	var umu sync.Mutex
	ucl, _ := newUDPClient(net.IPv4(198, 51, 100, 77).To4(), 0, kStay)
	defer ucl.Close()
	retainedUDP, _ := net.ResolveUDPAddr("udp", retained)
	wg.Add(1)
	go func() {
		defer wg.Done()
		ur := c.SubRng("c11u", round)
		for {
			select {
			case <-stop:
				return
			default:
			}
			// bounded backlog: never more than ~100 datagrams the target has not seen yet, so that the
			// server's socket queue cannot overflow while the server process is starved of CPU
			umu.Lock()
			backlog := len(udpIDs) - utgt.Count()
			umu.Unlock()
			if backlog > 100 {
				time.Sleep(time.Millisecond)
				continue
			}
			id := nextID(c.Batch)
			umu.Lock()
			udpIDs = append(udpIDs, id)
			umu.Unlock()
			ucl.Send(ssUDP(kStay, randBytes(ur, kStay.Codec().C.SaltSize), utgt.addr(), mkUDPPayload(id, 1, 16, 24)), retainedUDP)
			time.Sleep(time.Duration(100+ur.Intn(500)) * time.Microsecond)
		}
	}()

	// ---- reloads ----
	K := 5 + r.Intn(c.N(8, 46))
	var windows []window
	withGo := true
	time.Sleep(100 * time.Millisecond)
	for k := 1; k <= K; k++ {
		if k == 2 {
			withGo = false // the key of two long-lived relays is removed
		}
		var next ConfSpec
		if r.Intn(3) == 0 {
			next = cur // identical file
		} else {
			next = mkConf(k, withGo)
		}
		if !withGo {
			for i := range next.Services {
				var ks []KeySpec
				for _, kk := range next.Services[i].Keys {
					if kk.ID != kGo.ID {
						ks = append(ks, kk)
					}
				}
				next.Services[i].Keys = ks
			}
		}
		conflict := false
		if k%5 == 3 {
			// a listener of the running configuration re-appears under the wildcard address: it cannot
			// be bound while the old configuration is live, so this reload must fail and change nothing
			for _, s := range cur.Services {
				for _, l := range s.Listeners {
					if l.Addr != retained && !conflict {
						_, p, _ := net.SplitHostPort(l.Addr)
						next = cur
						next.Services = append(append([]SvcSpec(nil), cur.Services...), SvcSpec{Listeners: []LnSpec{{l.Type, "0.0.0.0:" + p}}, Keys: []KeySpec{{fmt.Sprintf("conflict-%d", k), "chacha20-ietf-poly1305", "x"}}})
						conflict = true
					}
				}
			}
		}
		c.Progress("C11 round=%d reload %d/%d conflict=%v", round, k, K, conflict)
		w := window{a: time.Now()}
		reloading.Store(true)
		burst := !conflict && k%4 == 2
		if burst {
			// two signals in quick succession: the reloads must not run into each other (the second may
			// be coalesced with the first, or run after it)
			atomicWrite(srv.CfgPath, []byte(next.YAML()))
			syscall.Kill(srv.Pid, syscall.SIGHUP)
			time.Sleep(time.Duration(r.Intn(3000)) * time.Microsecond)
		}
		res, err := srv.Reload([]byte(next.YAML()), 60*time.Second)
		if burst && err == nil {
			// a possible second completion marker belongs to the same window
			srv.WaitLog([]string{"Stopped all listeners for running config", "Failed to update server"}, 700*time.Millisecond)
			c.Count("sighup_bursts", 1)
		}
		// the window ends when the server has finished every reload it started (a second signal of a
		// burst may be served after the first completion marker; on a loaded machine much later)
		if !srv.WaitReloadsDone(60 * time.Second) {
			c.Inconclusive("a reload started by the server did not finish within 60 s (window accounting impossible)")
		}
		reloading.Store(false)
		w.b = time.Now()
		windows = append(windows, w)
		if conflict && err == nil {
			if res == "failed" {
				c.Count("reloads_refused_for_bind_conflict", 1)
			} else {
				cur = next
				c.Count("reloads", 1)
			}
			time.Sleep(time.Duration(60+r.Intn(200)) * time.Millisecond)
			continue
		}
		if err != nil || res != "ok" {
			c.Violation("C11/valid-reload-failed", map[string]any{"reload": k, "result": res, "err": fmt.Sprint(err), "log": srv.LogTail(2000)})
			close(stop)
			wg.Wait()
			return false
		}
		for _, kk := range retainedKeys(cur, legacy) {
			retired[kk.ID] = kk
		}
		cur = next
		for _, kk := range retainedKeys(cur, legacy) {
			delete(retired, kk.ID)
		}
		c.Count("reloads", 1)
		time.Sleep(time.Duration(60+r.Intn(200)) * time.Millisecond)
	}
	time.Sleep(150 * time.Millisecond)
	close(stop)
	wg.Wait()
	c.Eval(fmt.Sprintf("reload-storm|reloads=%s|clients=%s|overlap=%dms", sizeBucket(K), sizeBucket(nClients), overlap/time.Millisecond/50*50))

	// ---- oracle ----
	after, _ := srv.Metrics()
	delta := func(status string) float64 {
		return metricSum(after, "shadowsocks_tcp_connections_closed", map[string]string{"status": status}) - metricSum(before, "shadowsocks_tcp_connections_closed", map[string]string{"status": status})
	}
	nOK, nEOF0, inside, insideOK := 0, 0, 0, 0
	nEOF0Outside := 0
	for _, e := range exchanges {
		ov := overlaps(windows, e.t0, e.t1)
		c.Eval(fmt.Sprintf("exchange|%s|overlaps-reload=%v|started-inside=%v|legacy=%v", e.outcome, ov, startedInside(windows, e.t0), legacy))
		if startedInside(windows, e.t0) {
			inside++
			if e.outcome == "ok" {
				insideOK++
			}
		}
		switch e.outcome {
		case "ok":
			nOK++
		case "connect-failed":
			c.Violation("C11/connection-attempt-to-retained-address-refused", map[string]any{"detail": e.detail, "during_reload": ov})
			return false
		case "eof0":
			nEOF0++
			if !ov {
				nEOF0Outside++
			}
		default:
			c.Violation("C11/exchange-broken", map[string]any{"detail": e.detail, "during_reload": ov})
			return false
		}
	}
	// the client sees the end of its connection before the server has finished accounting for it
	// (the close report follows the FIN): give the counters a bounded time to catch up
	for dl := time.Now().Add(60 * time.Second); int(delta("ERR_CONNECT")+delta("ERR_REPLAY_CLIENT")) < nEOF0 && time.Now().Before(dl); {
		time.Sleep(50 * time.Millisecond)
		if m, err := srv.Metrics(); err == nil {
			after = m
		}
	}
	// With the replay history on, a never-seen handshake is refused (empty EOF for the client) on a
	// 32-bit checksum collision with a remembered one - the one refusal C07 allows. Expected number:
	// exchanges x 2N / 2^32 (0.2 for 40000 exchanges against N = 10000); more than a handful is not chance.
	collisions := int(delta("ERR_REPLAY_CLIENT"))
	allowed := 0
	if replayHistory > 0 {
		allowed = 3 + int(10*float64(len(exchanges))*2*float64(replayHistory)/4294967296.0)
	}
	if collisions > allowed {
		c.Violation("C11/client-with-retained-key-failed-during-reloads", map[string]any{"status": "ERR_REPLAY_CLIENT", "count": collisions, "replay_history": replayHistory, "exchanges": len(exchanges), "collisions_chance_allows": allowed})
		return false
	}
	if collisions > 0 {
		c.Count("fresh_handshakes_refused_on_a_checksum_collision", int64(collisions))
	}
	if nEOF0Outside > collisions {
		c.Violation("C11/exchange-outside-any-reload-did-not-complete", map[string]any{"outcome": "eof0", "count": nEOF0Outside, "explained_by_checksum_collisions": collisions})
		return false
	}
	nEOF0 -= collisions
	if got := delta("ERR_CONNECT"); int(got) != nEOF0 {
		all := map[string]float64{}
		for _, st := range []string{"OK", "ERR_CONNECT", "ERR_CIPHER", "ERR_READ_ADDRESS", "ERR_RELAY_CLIENT", "ERR_RELAY_TARGET", "ERR_REPLAY_CLIENT", "ERR_REPLAY_SERVER", "ERR_ADDRESS_INVALID", "ERR_ADDRESS_PRIVATE"} {
			if d := delta(st); d != 0 {
				all[st] = d
			}
		}
		c.Violation("C11/unserved-exchanges-not-explained-by-cancelled-dials", map[string]any{"clients_saw_empty_eof": nEOF0, "err_connect_delta": got, "closed_by_status": all, "exchanges": len(exchanges), "opened_delta": metricSum(after, "shadowsocks_tcp_connections_opened", nil) - metricSum(before, "shadowsocks_tcp_connections_opened", nil)})
		return false
	}
	for _, st := range []string{"ERR_CIPHER", "ERR_READ_ADDRESS", "ERR_RELAY_CLIENT", "ERR_RELAY_TARGET", "ERR_REPLAY_SERVER", "ERR_ADDRESS_INVALID", "ERR_ADDRESS_PRIVATE"} {
		if d := delta(st); d != 0 {
			c.Violation("C11/client-with-retained-key-failed-during-reloads", map[string]any{"status": st, "count": d})
			return false
		}
	}
	if inside == 0 {
		c.Inconclusive("no exchange started inside a reload window")
	}
	c.Count("exchanges_ok", int64(nOK))
	c.Count("exchanges_started_inside_reload_window", int64(inside))
	c.Count("exchanges_started_inside_window_and_served", int64(insideOK))
	c.Count("exchanges_cancelled_dial", int64(nEOF0))
	// UDP: every datagram exactly once
	time.Sleep(100 * time.Millisecond)
	seen := map[uint64]int{}
	for _, g := range utgt.Snap() {
		if id, ok := udpPayloadID(g.Data); ok {
			seen[id]++
		}
	}
	umu.Lock()
	ids := udpIDs
	umu.Unlock()
	missing := 0
	for _, id := range ids {
		if seen[id] > 1 {
			c.Violation("C11/datagram-not-handled-by-exactly-one-generation", map[string]any{"times_forwarded": seen[id], "datagrams_sent": len(ids)})
			return false
		}
		if seen[id] == 0 {
			missing++
		}
	}
	if missing > 0 {
		// datagrams the kernel dropped at the server's socket were never received by the server
		drops := lab.UDPDrops(retained)
		if int64(missing) > drops {
			c.Violation("C11/datagram-not-handled-by-exactly-one-generation", map[string]any{"times_forwarded": 0, "missing": missing, "kernel_drops_at_server_socket": drops, "datagrams_sent": len(ids)})
			return false
		}
		c.Inconclusive(fmt.Sprintf("%d datagrams were dropped by the kernel at the server socket (drop counter %d): not delivered to any generation", missing, drops))
	}
	replies := map[uint64]int{}
	for _, g := range ucl.Snap() {
		if d, err := decodeReply(kStay, g.Data); err == nil && len(d.Payload) >= 8 {
			replies[u64(d.Payload[:8])]++
		}
	}
	for id, n := range replies {
		if n > 1 {
			c.Violation("C11/reply-duplicated", map[string]any{"id": id, "times": n})
			return false
		}
	}
	c.Count("datagrams_exactly_once", int64(len(ids)))
	// no earlier generation is still serving the retained address: keys that were dropped along
	// the way are refused now, every time (a forgotten generation would accept them now and then)
	nRetired := 0
	for _, kk := range retired {
		if nRetired >= 4 {
			break
		}
		nRetired++
		for rep := 0; rep < 6; rep++ {
			caseN := nextID(c.Batch)
			got, _, err := tcpExchange(retained, randSrc4(r), kk, randBytes(r, kk.Codec().C.SaltSize), caseIP4(caseN&0xffffff), hub.Port, putU64(caseN), 20*time.Second)
			if err == nil && len(got) == 8 {
				c.Violation("C11/key-of-a-replaced-configuration-still-authenticates-on-the-retained-address", map[string]any{"key": kk.ID, "attempt": rep})
				return false
			}
		}
		c.Count("retired_keys_refused", 1)
	}
	// long-lived relays
	if v := midFail.Load(); v != nil {
		c.Violation("C11/mid-transfer-relay-interrupted-by-reload", v)
		return false
	}
	c.Count("mid_transfer_chunks_echoed", int64(len(mid.sent)/8))
	for _, lr := range []*longRelay{idle, idleGo} {
		msg := []byte("still-alive-" + lr.name)
		if err := lr.cl.WriteRaw(lr.cl.Enc.Encode(msg, nil)); err != nil {
			c.Violation("C11/idle-relay-closed-by-reload", map[string]any{"relay": lr.name, "err": err.Error()})
			return false
		}
		lr.sent = append(lr.sent, msg...)
		if !readEcho(lr, len(lr.sent), 10*time.Second) || !bytes.Equal(lr.got.Bytes(), lr.sent) {
			c.Violation("C11/idle-relay-closed-by-reload", map[string]any{"relay": lr.name, "echoed": lr.got.Len(), "sent": len(lr.sent)})
			return false
		}
		c.Count("idle_relays_alive_after_reloads", 1)
	}
	// half-closed relay: the upload continues after all reloads and reaches the target completely
	tail := makeStream(uint64(round)+99, 20000)
	if err := half.cl.WriteRaw(half.cl.Enc.Encode(tail, []int{1000})); err != nil {
		c.Violation("C11/half-closed-relay-closed-by-reload", err.Error())
		return false
	}
	half.cl.Conn.CloseWrite()
	select {
	case <-halfEOF:
	case <-time.After(15 * time.Second):
		c.Violation("C11/half-closed-relay-closed-by-reload", "target never saw the end of the upload")
		return false
	}
	halfMu.Lock()
	rx := halfRx.Bytes()
	halfMu.Unlock()
	if !bytes.Equal(rx, append([]byte("hello-"), tail...)) {
		c.Violation("C11/half-closed-relay-closed-by-reload", map[string]any{"target_received": len(rx), "client_sent": 6 + len(tail)})
		return false
	}
	c.Count("half_closed_relays_completed_after_reloads", 1)
	// quiet reloads: no traffic while the configuration is reloaded; the FIRST datagram and the first
	// connection on the retained address afterwards are served by the configuration now in force
	// (a fresh client each time, so that the reply can only come through a new association)
	for q := 0; q < 2; q++ {
		res, err := srv.Reload([]byte(cur.YAML()), 60*time.Second)
		if err != nil || res != "ok" {
			c.Violation("C11/valid-reload-failed", map[string]any{"phase": "quiet reload", "result": res, "err": fmt.Sprint(err)})
			return false
		}
		time.Sleep(time.Duration(20+r.Intn(150)) * time.Millisecond)
		qcl, err := newUDPClient(net.IPv4(198, 51, 100, byte(80+q)).To4(), 0, kStay)
		if err != nil {
			continue
		}
		id := nextID(c.Batch)
		qcl.Send(ssUDP(kStay, randBytes(r, kStay.Codec().C.SaltSize), utgt.addr(), mkUDPPayload(id, 1, 16, 24)), retainedUDP)
		_, fwd := utgt.waitID(id, udpB)
		_, rep := qcl.waitReply(kStay, id|1<<56, udpB)
		drops := lab.UDPDrops(retained)
		qcl.Close()
		c.Eval("quiet-reload|first-datagram")
		if !fwd || !rep {
			if drops > 0 {
				c.Inconclusive("quiet reload: datagram missing, the kernel reports drops at the server socket")
			} else {
				c.Violation("C11/first-datagram-after-a-quiet-reload-not-served", map[string]any{"forwarded_to_target": fwd, "reply_received": rep, "quiet_reload": q + 1})
				return false
			}
		}
		caseN := nextID(c.Batch)
		got, _, err := tcpExchange(retained, randSrc4(r), kStay, randBytes(r, kStay.Codec().C.SaltSize), caseIP4(caseN&0xffffff), hub.Port, putU64(caseN), 20*time.Second)
		if err != nil || !bytes.Equal(got, putU64(caseN)) {
			c.Violation("C11/first-connection-after-a-quiet-reload-not-served", map[string]any{"err": fmt.Sprint(err), "reply_len": len(got)})
			return false
		}
		c.Count("quiet_reloads_first_datagram_served", 1)
	}
	for _, lr := range longs {
		lr.cl.Conn.Close()
	}
	if !srv.Alive() {
		c.Violation("C11/server-exited", srv.LogTail(3000))
		return false
	}
	if round == 0 {
		c.Sample(map[string]any{"reloads": K, "clients": nClients, "exchanges": len(exchanges), "started_inside_window": inside, "udp_datagrams": len(ids), "overlap_ms": overlap.Milliseconds()})
	}
	return true
}

// retainedKeys lists the keys configured for the retained address.
func retainedKeys(cf ConfSpec, legacy bool) []KeySpec {
	if legacy {
		var out []KeySpec
		for _, k := range cf.Legacy {
			out = append(out, k.KeySpec)
		}
		return out
	}
	if len(cf.Services) > 0 {
		return cf.Services[0].Keys
	}
	return nil
}

// c11InProcess: the listener of a StreamServe closes (what a reload does to the old
// generation) while relays are idle, mid-transfer and half-closed: they run to completion.
func c11InProcess(c *vk.Ctx, r *rand.Rand) bool {
	keys := RandKeys(r, 3, nil, 0)
	env := newRelayEnv(keys, TCPRigOpts{Timeout: relayTimeout}, TCPRigOpts{Timeout: relayTimeout})
	defer env.Close()
	var wg sync.WaitGroup
	n := c.N(12, 40)
	results := make([]bool, n)
	cases := make([]relayCase, n)
	started := make(chan struct{}, n)
	for i := 0; i < n; i++ {
		rc := genRelayCase(r, c.Batch, keys, false)
		rc.Mode = []string{"client-fin-first", "target-fin-first", "concurrent"}[i%3]
		rc.SlowMs = 700 // every exchange pauses mid-stream: the listener closes during the pause
		rc.UpLen, rc.DownLen = 2000+r.Intn(50000), 2000+r.Intn(50000)
		rc.TailAfter = 1500
		cases[i] = rc
		wg.Add(1)
		wr := c.SubRng("c11ip", i)
		go func(i int) {
			defer wg.Done()
			started <- struct{}{}
			o := runRelayCase(env, wr, cases[i])
			c.Eval("in-process|listener-closed-mid-relay|" + cases[i].Mode)
			if o.TargetConns == 0 && o.Rec != nil && o.Rec.Snap().Status() == "ERR_CONNECT" {
				// this exchange had not reached its target yet when the listener closed (the harness was
				// slow): its dial was cancelled, which is the documented behaviour, not a relay cut short
				c.Inconclusive("in-process: exchange was not relaying yet when the listener closed")
				results[i] = true
				return
			}
			results[i] = judgeRelay(c, "C11/in-process", cases[i], o)
		}(i)
	}
	for i := 0; i < n; i++ {
		<-started
	}
	time.Sleep(350 * time.Millisecond) // all exchanges are in their mid-stream pause
	env.RigRec.Ln.Close()
	env.RigRaw.Ln.Close()
	wg.Wait()
	for _, ok := range results {
		if !ok {
			return false
		}
	}
	c.Count("in_process_relays_completed_across_listener_close", int64(n))
	return true
}

func c11Run(c *vk.Ctx) {
	lab.MustSetup(c.RunDir)
	r := c.Rng
	for round := 0; round < c.N(3, 6); round++ {
		if !c11Process(c, r, c.Batch*10+round) {
			return
		}
	}
	c11InProcess(c, r)
}

func init() {
	vk.Register(&vk.Spec{
		ID:    "C11",
		Level: "exploration",
		Rule: "real binary (hook H4 keeps both generations live for 80..230 ms per reload): 5..50 consecutive SIGHUP reloads (identical file, keys added/removed, other listeners added/removed, one reload removes the key of two long-lived relays) while 8..32 clients (plus 32 surge clients during every reload window) run short authenticated exchanges against the retained TCP address, one UDP sender streams datagrams with unique ids to the retained UDP address, and four long-lived relays (idle, idle under the removed key, mid-transfer, half-closed by the target) stay open; then quiet reloads (no traffic; the first datagram and connection afterwards must be served); replay history 0/500/10000; " +
			"oracle over the exchange log with reload windows [SIGHUP sent, completion marker], /metrics status deltas, target-side datagram ids, relay continuity; in-process: StreamServe listeners closed while relays of all three half-close modes are paused mid-stream; class = (reload count bucket, client count bucket, overlap)",
		Assumptions: []string{"an exchange overlapping a reload window may legitimately end as 'authenticated, dial cancelled' (clean EOF, zero bytes, ERR_CONNECT): StreamServe cancels handler contexts when its listener closes", "UDP replies are only checked for duplicates (the old generation's associations expire at hand-over)"},
		Batches:     func(t string) int { return map[string]int{"quick": 4, "thorough": 12}[t] },
		Parallel:    func(t string) int { return 4 },
		Timeout:     func(t string) time.Duration { return 25 * time.Minute },
		RaceUpgrade: func(report string) (string, bool) {
			// the reload machinery of the binary (package main) is single-threaded by design: a data race
			// in it means two reloads (or a reload and a stop) ran at the same time
			if strings.Contains(report, "main.(*OutlineServer)") || strings.Contains(report, "main.RunOutlineServer") {
				return "C11/reloads-not-serialised", true
			}
			return "", false
		},
		Run: func(c *vk.Ctx) {
			for _, s := range []string{"reloads", "exchanges_ok", "exchanges_started_inside_reload_window", "datagrams_exactly_once", "idle_relays_alive_after_reloads", "half_closed_relays_completed_after_reloads", "mid_transfer_chunks_echoed", "in_process_relays_completed_across_listener_close", "quiet_reloads_first_datagram_served"} {
				c.Require(s)
			}
			c11Run(c)
		},
	})
}
