package props

import (
	"errors"
	"fmt"
	"net"
	"sync"
	"sync/atomic"
	"syscall"
	"time"

	"github.com/Jigsaw-Code/outline-ss-server/service"

	"verifharness/sscodec"
)

// ---------- recording UDP metrics ----------

type udpPktEv struct {
	Status string
	A, B   int64 // (clientProxy, proxyTarget) or (targetProxy, proxyClient)
	T      time.Time
}

// UDPAssocRec is the metrics-side record of one association.
type UDPAssocRec struct {
	mu         sync.Mutex
	Client     string
	Key        string
	Added      time.Time
	FromClient []udpPktEv
	FromTarget []udpPktEv
	Removed    []time.Time
	tee        service.UDPConnMetrics
	// fault injection / scheduling aid
	slowRemove    time.Duration
	removeEntered []time.Time
}

// RemoveEntered reports how many times the removal report has been entered (it may still be in progress).
func (a *UDPAssocRec) RemoveEntered() int {
	a.mu.Lock()
	defer a.mu.Unlock()
	return len(a.removeEntered)
}

func (a *UDPAssocRec) AddPacketFromClient(status string, cp, pt int64) {
	a.mu.Lock()
	a.FromClient = append(a.FromClient, udpPktEv{status, cp, pt, time.Now()})
	a.mu.Unlock()
	if a.tee != nil {
		a.tee.AddPacketFromClient(status, cp, pt)
	}
}
func (a *UDPAssocRec) AddPacketFromTarget(status string, tp, pc int64) {
	a.mu.Lock()
	a.FromTarget = append(a.FromTarget, udpPktEv{status, tp, pc, time.Now()})
	a.mu.Unlock()
	if a.tee != nil {
		a.tee.AddPacketFromTarget(status, tp, pc)
	}
}

// SetSlowRemove makes the removal report of this association take this long (a metrics sink under
// lock contention): it widens the window between "the relay loop has ended" and "the entry is gone".
func (a *UDPAssocRec) SetSlowRemove(d time.Duration) {
	a.mu.Lock()
	a.slowRemove = d
	a.mu.Unlock()
}

func (a *UDPAssocRec) RemoveNatEntry() {
	a.mu.Lock()
	slow := a.slowRemove
	a.removeEntered = append(a.removeEntered, time.Now())
	a.mu.Unlock()
	if slow > 0 {
		time.Sleep(slow)
	}
	// the real collector first: whoever sees the removal in the record may rely on the
	// collector having processed it (e.g. before advancing a controlled clock)
	if a.tee != nil {
		a.tee.RemoveNatEntry()
	}
	a.mu.Lock()
	a.Removed = append(a.Removed, time.Now())
	a.mu.Unlock()
}

type UDPAssocSnap struct {
	Client     string
	Key        string
	Added      time.Time
	FromClient []udpPktEv
	FromTarget []udpPktEv
	Removed    []time.Time
}

func (a *UDPAssocRec) Snap() UDPAssocSnap {
	a.mu.Lock()
	defer a.mu.Unlock()
	return UDPAssocSnap{a.Client, a.Key, a.Added, append([]udpPktEv(nil), a.FromClient...), append([]udpPktEv(nil), a.FromTarget...), append([]time.Time(nil), a.Removed...)}
}

type UDPRec struct {
	mu     sync.Mutex
	Assocs []*UDPAssocRec
	tee    service.UDPMetrics
}

func (r *UDPRec) AddUDPNatEntry(clientAddr net.Addr, accessKey string) service.UDPConnMetrics {
	a := &UDPAssocRec{Client: clientAddr.String(), Key: accessKey}
	if r.tee != nil {
		a.tee = r.tee.AddUDPNatEntry(clientAddr, accessKey)
	}
	a.Added = time.Now()
	r.mu.Lock()
	r.Assocs = append(r.Assocs, a)
	r.mu.Unlock()
	return a
}

func (r *UDPRec) All() []*UDPAssocRec {
	r.mu.Lock()
	defer r.mu.Unlock()
	return append([]*UDPAssocRec(nil), r.Assocs...)
}

// ByClient returns the associations created for a client address, oldest first.
func (r *UDPRec) ByClient(client string) []*UDPAssocRec {
	var out []*UDPAssocRec
	for _, a := range r.All() {
		if a.Client == client {
			out = append(out, a)
		}
	}
	return out
}

// ---------- H2: NAT socket wrapper ----------

type natEv struct {
	T    time.Time
	Kind string // setReadDeadline, writeTo, readFrom, close
	DL   time.Time
	Addr string
	N    int
	Err  string
}

// NatSock records everything the server does with one outbound NAT socket.
type NatSock struct {
	net.PacketConn
	ID      int
	Local   string
	Created time.Time
	mu      sync.Mutex
	Events  []natEv
	// fault injection
	FailWrite func(dst net.Addr, n int) error
	// DelayTimeout holds back a read-timeout error for this long (a slow reaper): it widens
	// the window between "deadline passed" and "association removed".
	DelayTimeout time.Duration
	// OnSetDeadline is called at the entry of every SetReadDeadline (before it takes effect) with
	// the number of earlier calls: a scheduling point inside the server's write path.
	OnSetDeadline func(call int, dl time.Time)
	nSetDL        int
	failImmediate bool
	reg           *NatRegistry
}

func (s *NatSock) ev(e natEv) {
	e.T = time.Now()
	s.mu.Lock()
	s.Events = append(s.Events, e)
	s.mu.Unlock()
}

// FailNextImmediateDeadline makes the next SetReadDeadline whose deadline is "now" fail (once)
// without taking effect: what a socket does when the kernel refuses the call during a shutdown.
func (s *NatSock) FailNextImmediateDeadline() {
	s.mu.Lock()
	s.failImmediate = true
	s.mu.Unlock()
}

func (s *NatSock) SetReadDeadline(t time.Time) error {
	s.mu.Lock()
	call := s.nSetDL
	s.nSetDL++
	hook := s.OnSetDeadline
	fail := s.failImmediate && !t.After(time.Now().Add(2*time.Millisecond))
	if fail {
		s.failImmediate = false
	}
	s.mu.Unlock()
	if fail {
		s.ev(natEv{Kind: "setReadDeadlineFailed", DL: t, Err: "injected: set deadline fails"})
		return errors.New("injected: set deadline fails")
	}
	if hook != nil {
		hook(call, t)
	}
	s.ev(natEv{Kind: "setReadDeadline", DL: t})
	return s.PacketConn.SetReadDeadline(t)
}
func (s *NatSock) WriteTo(b []byte, dst net.Addr) (int, error) {
	if s.FailWrite != nil {
		if err := s.FailWrite(dst, len(b)); err != nil {
			s.ev(natEv{Kind: "writeTo", Addr: dst.String(), N: 0, Err: err.Error()})
			return 0, err
		}
	}
	// The event is entered BEFORE the datagram leaves (and completed afterwards): the answer to it
	// can be read by another goroutine before this one is scheduled again, and the log must keep
	// cause before effect.
	s.mu.Lock()
	idx := len(s.Events)
	s.Events = append(s.Events, natEv{T: time.Now(), Kind: "writeTo", Addr: dst.String(), N: -1})
	s.mu.Unlock()
	n, err := s.PacketConn.WriteTo(b, dst)
	s.mu.Lock()
	s.Events[idx].N, s.Events[idx].Err = n, errStr(err)
	s.mu.Unlock()
	return n, err
}
func (s *NatSock) ReadFrom(b []byte) (int, net.Addr, error) {
	n, a, err := s.PacketConn.ReadFrom(b)
	s.mu.Lock()
	hold := s.DelayTimeout
	s.mu.Unlock()
	if err != nil && hold > 0 && isTimeout(err) {
		s.ev(natEv{Kind: "timeoutHeld"})
		time.Sleep(hold)
	}
	as := ""
	if a != nil {
		as = a.String()
	}
	s.ev(natEv{Kind: "readFrom", Addr: as, N: n, Err: errStr(err)})
	return n, a, err
}

// SetDelayTimeout makes the socket report read timeouts this much late (a slow reaper).
func (s *NatSock) SetDelayTimeout(d time.Duration) {
	s.mu.Lock()
	s.DelayTimeout = d
	s.mu.Unlock()
}
func (s *NatSock) Close() error {
	s.ev(natEv{Kind: "close"})
	return s.PacketConn.Close()
}
func (s *NatSock) Snap() []natEv {
	s.mu.Lock()
	defer s.mu.Unlock()
	return append([]natEv(nil), s.Events...)
}
func (s *NatSock) Closed() (time.Time, int) {
	n := 0
	var t time.Time
	for _, e := range s.Snap() {
		if e.Kind == "close" {
			n++
			if t.IsZero() {
				t = e.T
			}
		}
	}
	return t, n
}

type NatRegistry struct {
	mu    sync.Mutex
	Socks []*NatSock
	// OnNew lets a check configure fault injection on a fresh socket.
	OnNew func(*NatSock)
}

func (r *NatRegistry) Install() {
	service.VerifSetPacketConnWrapper(func(pc net.PacketConn) net.PacketConn {
		r.mu.Lock()
		s := &NatSock{PacketConn: pc, ID: len(r.Socks), Local: pc.LocalAddr().String(), Created: time.Now(), reg: r}
		r.Socks = append(r.Socks, s)
		on := r.OnNew
		r.mu.Unlock()
		if on != nil {
			on(s)
		}
		return s
	})
}

// SetOnNew installs (or removes) the per-socket configuration callback.
func (r *NatRegistry) SetOnNew(f func(*NatSock)) {
	r.mu.Lock()
	r.OnNew = f
	r.mu.Unlock()
}
func (r *NatRegistry) Uninstall() { service.VerifSetPacketConnWrapper(nil) }
func (r *NatRegistry) All() []*NatSock {
	r.mu.Lock()
	defer r.mu.Unlock()
	return append([]*NatSock(nil), r.Socks...)
}

// ByPort finds the NAT socket bound to the given local port.
func (r *NatRegistry) ByPort(port int) *NatSock {
	for _, s := range r.All() {
		if _, p, _ := net.SplitHostPort(s.Local); p == fmt.Sprint(port) {
			return s
		}
	}
	return nil
}

// ---------- the rig ----------

type recvEv struct {
	T    time.Time
	From string
	Data []byte
}

// serverSock wraps the listening socket handed to the packet handler, recording replies.
type serverSock struct {
	net.PacketConn
	mu        sync.Mutex
	Writes    []recvEv // To in From
	FailWrite func(dst net.Addr, n int) error
}

// SetFailWrite installs fault injection for writes towards clients.
func (s *serverSock) SetFailWrite(f func(dst net.Addr, n int) error) {
	s.mu.Lock()
	s.FailWrite = f
	s.mu.Unlock()
}

func (s *serverSock) WriteTo(b []byte, dst net.Addr) (int, error) {
	s.mu.Lock()
	fw := s.FailWrite
	s.mu.Unlock()
	if fw != nil {
		if err := fw(dst, len(b)); err != nil {
			return 0, err
		}
	}
	n, err := s.PacketConn.WriteTo(b, dst)
	s.mu.Lock()
	if len(s.Writes) < 100000 {
		s.Writes = append(s.Writes, recvEv{time.Now(), dst.String(), nil})
	}
	s.mu.Unlock()
	return n, err
}

type UDPRig struct {
	Keys     []KeySpec
	CL       service.CipherList
	PC       *net.UDPConn
	Sock     *serverSock
	Port     int
	Rec      *UDPRec
	SS       *searchRec
	Nat      *NatRegistry
	Handler  service.PacketHandler
	done     chan struct{}
	returned atomic.Int64
	// further listeners served by the SAME handler (one `services:` entry with several udp
	// listeners is wired like this by the server binary)
	ExtraPC    []*net.UDPConn
	ExtraPorts []int
}

type UDPRigOpts struct {
	NatTimeout time.Duration
	Tee        service.UDPMetrics
	NoNatHook  bool
	Listeners  int // total number of listeners served by the one handler (default 1)
	// ViaService builds the handler the way the server binary does: service.NewShadowsocksService with
	// options, datagrams enter through Service.HandlePacket (anything the service puts between the listener
	// and the packet handler is then on the path)
	ViaService bool
}

// udpRigSvcMetrics is the ServiceMetrics handed to NewShadowsocksService: the rig's own recorders.
type udpRigSvcMetrics struct {
	rec *UDPRec
	ss  *searchRec
}

func (m *udpRigSvcMetrics) AddUDPNatEntry(clientAddr net.Addr, accessKey string) service.UDPConnMetrics {
	return m.rec.AddUDPNatEntry(clientAddr, accessKey)
}
func (m *udpRigSvcMetrics) AddOpenTCPConnection(conn net.Conn) service.TCPConnMetrics { return nil }
func (m *udpRigSvcMetrics) AddCipherSearch(proto string, found bool, d time.Duration) {
	m.ss.AddCipherSearch(found, d)
}

func StartUDPRig(keys []KeySpec, o UDPRigOpts) *UDPRig {
	if o.NatTimeout == 0 {
		o.NatTimeout = 2 * time.Second
	}
	pc, err := net.ListenUDP("udp", &net.UDPAddr{})
	if err != nil {
		fatalf("udp rig listen: %v", err)
	}
	bigBuffers(pc)
	rig := &UDPRig{Keys: keys, CL: BuildCipherList(keys), PC: pc, Port: pc.LocalAddr().(*net.UDPAddr).Port,
		Rec: &UDPRec{tee: o.Tee}, SS: &searchRec{}, Nat: &NatRegistry{}, done: make(chan struct{})}
	if !o.NoNatHook {
		rig.Nat.Install()
	}
	rig.Sock = &serverSock{PacketConn: pc}
	handle := func(pc net.PacketConn) {}
	if o.ViaService {
		svc, err := service.NewShadowsocksService(service.WithCiphers(rig.CL), service.WithMetrics(&udpRigSvcMetrics{rig.Rec, rig.SS}), service.WithNatTimeout(o.NatTimeout))
		if err != nil {
			fatalf("udp rig service: %v", err)
		}
		handle = svc.HandlePacket
	} else {
		rig.Handler = service.NewPacketHandler(o.NatTimeout, rig.CL, rig.Rec, rig.SS)
		handle = rig.Handler.Handle
	}
	var loops sync.WaitGroup
	loops.Add(1)
	go func() {
		defer loops.Done()
		handle(rig.Sock)
	}()
	for i := 1; i < o.Listeners; i++ {
		xpc, err := net.ListenUDP("udp", &net.UDPAddr{})
		if err != nil {
			fatalf("udp rig listen: %v", err)
		}
		bigBuffers(xpc)
		rig.ExtraPC = append(rig.ExtraPC, xpc)
		rig.ExtraPorts = append(rig.ExtraPorts, xpc.LocalAddr().(*net.UDPAddr).Port)
		loops.Add(1)
		go func() {
			defer loops.Done()
			handle(&serverSock{PacketConn: xpc})
		}()
	}
	go func() {
		loops.Wait()
		rig.returned.Store(time.Now().UnixNano())
		close(rig.done)
	}()
	return rig
}

// AddrOf returns the IPv4 address of the i-th listener (0 = the first one).
func (r *UDPRig) AddrOf(i int) *net.UDPAddr {
	if i == 0 {
		return r.Addr4()
	}
	return &net.UDPAddr{IP: net.IPv4(203, 0, 113, 10), Port: r.ExtraPorts[i-1]}
}

func (r *UDPRig) Addr4() *net.UDPAddr {
	return &net.UDPAddr{IP: net.IPv4(203, 0, 113, 10), Port: r.Port}
}
func (r *UDPRig) Addr6() *net.UDPAddr {
	return &net.UDPAddr{IP: net.ParseIP("2001:db8:5e::10"), Port: r.Port}
}

// Close closes the listening socket and waits for Handle to return.
func (r *UDPRig) Close(within time.Duration) bool {
	r.PC.Close()
	for _, x := range r.ExtraPC {
		x.Close()
	}
	defer r.Nat.Uninstall()
	select {
	case <-r.done:
		return true
	case <-time.After(within):
		return false
	}
}

// bigBuffers raises the socket buffers beyond net.core.rmem_max (we are root in the lab), so
// that bursts of maximum-size datagrams are not dropped by the kernel before anyone reads them.
func bigBuffers(pc *net.UDPConn) {
	pc.SetReadBuffer(8 << 20)
	pc.SetWriteBuffer(8 << 20)
	if rc, err := pc.SyscallConn(); err == nil {
		rc.Control(func(fd uintptr) {
			syscall.SetsockoptInt(int(fd), syscall.SOL_SOCKET, 33 /* SO_RCVBUFFORCE */, 16<<20)
			syscall.SetsockoptInt(int(fd), syscall.SOL_SOCKET, 32 /* SO_SNDBUFFORCE */, 16<<20)
		})
	}
}

// ---------- UDP endpoints ----------

// UDPEnd is a recording UDP socket (client or target).
type UDPEnd struct {
	PC   *net.UDPConn
	Addr *net.UDPAddr
	mu   sync.Mutex
	Got  []recvEv
	n    atomic.Int64
}

func NewUDPEnd(ip net.IP, port int) (*UDPEnd, error) {
	network := "udp4"
	if ip != nil && ip.To4() == nil {
		network = "udp6"
	}
	if ip == nil {
		network = "udp"
	}
	pc, err := net.ListenUDP(network, &net.UDPAddr{IP: ip, Port: port})
	if err != nil {
		return nil, err
	}
	bigBuffers(pc)
	e := &UDPEnd{PC: pc, Addr: pc.LocalAddr().(*net.UDPAddr)}
	go func() {
		buf := make([]byte, 70000)
		for {
			n, from, err := pc.ReadFromUDP(buf)
			if err != nil {
				return
			}
			e.mu.Lock()
			e.Got = append(e.Got, recvEv{time.Now(), from.String(), append([]byte(nil), buf[:n]...)})
			e.n.Add(1) // under the lock: Count() never lags behind what Snap() shows
			e.mu.Unlock()
		}
	}()
	return e, nil
}

func (e *UDPEnd) Count() int {
	e.mu.Lock()
	defer e.mu.Unlock()
	return len(e.Got)
}

func (e *UDPEnd) Snap() []recvEv {
	e.mu.Lock()
	defer e.mu.Unlock()
	return append([]recvEv(nil), e.Got...)
}

// WaitCount waits until at least n datagrams have arrived.
func (e *UDPEnd) WaitCount(n int, within time.Duration) bool {
	deadline := time.Now().Add(within)
	for e.Count() < n {
		if time.Now().After(deadline) {
			return false
		}
		time.Sleep(time.Millisecond)
	}
	return true
}

func (e *UDPEnd) Send(b []byte, to *net.UDPAddr) error {
	_, err := e.PC.WriteToUDP(b, to)
	return err
}

func (e *UDPEnd) Close() { e.PC.Close() }

// ssUDP builds a client datagram: address + payload under key with a fresh or given salt.
func ssUDP(k KeySpec, salt []byte, addr []byte, payload []byte) []byte {
	return sscodec.PackUDP(k.Codec(), salt, append(append([]byte(nil), addr...), payload...))
}
