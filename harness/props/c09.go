package props

import (
	"bytes"
	"fmt"
	"math/rand"
	"net"
	"strings"
	"sync"
	"sync/atomic"
	"time"

	"verifharness/lab"
	"verifharness/sscodec"
	"verifharness/vk"
)

// C09: a key works exactly on the listeners its configuration binds it to.
//
// The real binary is started with a PRNG-generated configuration; for EVERY
// (listener, key of the whole configuration) pair one TCP exchange or UDP datagram goes to
// a public echo target with a unique payload. Echo <=> the key's cipher+secret belong to
// the owner of the listener; attribution is read from /metrics deltas.

// aliasOf returns another spelling of the same socket address (or "" if there is none).
func aliasOf(addr string) string {
	h, p, _ := net.SplitHostPort(addr)
	ip := net.ParseIP(h)
	if ip == nil {
		return ""
	}
	if v4 := ip.To4(); v4 != nil {
		return net.JoinHostPort("::ffff:"+v4.String(), p)
	}
	var groups []string
	ip16 := ip.To16()
	for i := 0; i < 16; i += 2 {
		groups = append(groups, fmt.Sprintf("%x", int(ip16[i])<<8|int(ip16[i+1])))
	}
	return net.JoinHostPort(strings.Join(groups, ":"), p) // the uncompressed form
}

func genConf(r *rand.Rand, portBase int) ConfSpec {
	cf := ConfSpec{}
	port := portBase
	nextPort := func() int { port++; return port }
	nSvc := r.Intn(5)
	nLegacyPorts := r.Intn(3)
	if nSvc == 0 && nLegacyPorts == 0 {
		nSvc = 1
	}
	var pool []KeySpec // material that may be re-used across services under other ids
	id := 0
	newKey := func() KeySpec {
		id++
		k := KeySpec{ID: fmt.Sprintf("u%d", id), Cipher: pick(r, cipherNames), Secret: randSecret(r)}
		if id%3 == 1 {
			// a secret is taken literally: blanks at its ends (and inside) are part of it (the configuration
			// writes every secret as a quoted scalar)
			k.Secret = []string{" ", "\t", "  "}[id%3] + k.Secret[:3] + " " + k.Secret[3:] + []string{" ", "", "\t "}[(id/3)%3]
		}
		if len(pool) > 0 && r.Intn(4) == 0 {
			o := pool[r.Intn(len(pool))]
			k.Cipher, k.Secret = o.Cipher, o.Secret // same material under another id
		}
		pool = append(pool, k)
		return k
	}
	for s := 0; s < nSvc; s++ {
		svc := SvcSpec{}
		for l := 0; l < 1+r.Intn(3); l++ {
			typ := pick(r, []string{"tcp", "udp"})
			var host string
			switch r.Intn(4) {
			case 0:
				host = fmt.Sprintf("[2001:db8:ab::%x]", 1+r.Intn(200))
			case 1:
				host = "0.0.0.0"
			default:
				host = fmt.Sprintf("203.0.113.%d", 1+r.Intn(150))
			}
			svc.Listeners = append(svc.Listeners, LnSpec{typ, fmt.Sprintf("%s:%d", host, nextPort())})
		}
		nk := 1 + r.Intn(5)
		if s == 0 && r.Intn(2) == 0 {
			nk = 13 + r.Intn(6) // a long key list (with duplicates below)
		}
		for k := 0; k < nk; k++ {
			key := newKey()
			svc.Keys = append(svc.Keys, key)
			if r.Intn(5) == 0 { // the same cipher and secret twice in one service, under another id
				id++
				svc.Keys = append(svc.Keys, KeySpec{ID: fmt.Sprintf("u%d", id), Cipher: key.Cipher, Secret: key.Secret})
			}
			if r.Intn(6) == 0 { // the SAME id once more with another secret or cipher (one user, two keys): both work, both are this id
				svc.Keys = append(svc.Keys, KeySpec{ID: key.ID, Cipher: pick(r, cipherNames), Secret: randSecret(r)})
			}
			if r.Intn(4) == 0 { // the same secret under ANOTHER cipher: a different key, must work as well
				id++
				other := pick(r, cipherNames)
				if other != key.Cipher {
					svc.Keys = append(svc.Keys, KeySpec{ID: fmt.Sprintf("u%d", id), Cipher: other, Secret: key.Secret})
				}
			}
		}
		cf.Services = append(cf.Services, svc)
	}
	// always, when there are two services: one secret (and cipher) of the first service also in the
	// second one under another id - on each listener it is attributed to the id configured THERE
	if len(cf.Services) >= 2 {
		id++
		o := cf.Services[0].Keys[0]
		cf.Services[1].Keys = append(cf.Services[1].Keys, KeySpec{ID: fmt.Sprintf("u%d", id), Cipher: o.Cipher, Secret: o.Secret})
	}
	for p := 0; p < nLegacyPorts; p++ {
		pn := nextPort()
		for k := 0; k < 1+r.Intn(4); k++ {
			cf.Legacy = append(cf.Legacy, LegacyKey{newKey(), pn})
		}
	}
	// legacy: the same key on two ports
	if nLegacyPorts == 2 && r.Intn(2) == 0 {
		o := cf.Legacy[0]
		id++
		cf.Legacy = append(cf.Legacy, LegacyKey{KeySpec{fmt.Sprintf("u%d", id), o.Cipher, o.Secret}, cf.Legacy[len(cf.Legacy)-1].Port})
	}
	return cf
}

var c09Port atomic.Int64

type pairProbe struct {
	srv    *ServerProc
	hub    *TargetHub
	utgt   *udpTarget
	fenceC *udpClient
	fenceK KeySpec
	fenceA string
}

// probeTCP runs one exchange; returns whether the payload was echoed.
func (pp *pairProbe) probeTCP(c *vk.Ctx, r *rand.Rand, ep Endpoint, k KeySpec) (bool, bool) {
	caseN := nextID(c.Batch)
	ip := caseIP4(caseN & 0xffffff)
	pp.hub.On(ip.String(), echoTCP)
	defer pp.hub.Off(ip.String())
	payload := putU64(caseN)
	before, err := pp.srv.Metrics()
	if err != nil {
		c.Violation("C09/metrics-endpoint", err.Error())
		return false, false
	}
	var src net.IP // one client host for the whole configuration: per-client usage state accumulates
	if a, _ := net.ResolveTCPAddr("tcp", DialAddr(ep.Addr)); a != nil && a.IP.To4() != nil {
		src = net.IPv4(198, 51, 100, 9)
	} else {
		src = net.ParseIP("2001:db8:c9::9")
	}
	reply, _, err := tcpExchange(DialAddr(ep.Addr), src, k, randBytes(r, k.Codec().C.SaltSize), ip, pp.hub.Port, payload, 20*time.Second)
	echoed := err == nil && bytes.Equal(reply, payload)
	after, _ := pp.srv.Metrics()
	wantID, owned := firstIDFor(ep.Keys, k)
	wit := map[string]any{"listener": ep, "key": k, "echoed": echoed, "err": fmt.Sprint(err)}
	if echoed != owned {
		if owned {
			c.Violation("C09/key-rejected-on-its-own-listener", wit)
		} else {
			c.Violation("C09/key-accepted-on-foreign-listener", wit)
		}
		return echoed, false
	}
	// The client sees EOF before the server has finished its accounting (the FIN is sent before
	// the close report): poll for the expected delta.
	deadline := time.Now().Add(10 * time.Second)
	for {
		if owned {
			d := metricSum(after, "shadowsocks_tcp_connections_closed", map[string]string{"access_key": wantID, "status": "OK"}) - metricSum(before, "shadowsocks_tcp_connections_closed", map[string]string{"access_key": wantID, "status": "OK"})
			db := metricSum(after, "shadowsocks_data_bytes", map[string]string{"proto": "tcp", "dir": "c>p", "access_key": wantID}) - metricSum(before, "shadowsocks_data_bytes", map[string]string{"proto": "tcp", "dir": "c>p", "access_key": wantID})
			if d == 1 && db > 0 {
				break
			}
			if time.Now().After(deadline) {
				wit["expected_id"] = wantID
				wit["closed_delta"] = d
				wit["bytes_delta"] = db
				c.Violation("C09/connection-not-attributed-to-configured-id", wit)
				return echoed, false
			}
		} else {
			d := metricSum(after, "shadowsocks_tcp_connections_closed", map[string]string{"status": "ERR_CIPHER"}) - metricSum(before, "shadowsocks_tcp_connections_closed", map[string]string{"status": "ERR_CIPHER"})
			if d == 1 {
				break
			}
			if time.Now().After(deadline) {
				wit["err_cipher_delta"] = d
				c.Violation("C09/foreign-key-not-accounted-as-cipher-failure", wit)
				return echoed, false
			}
		}
		time.Sleep(10 * time.Millisecond)
		after, _ = pp.srv.Metrics()
	}
	return echoed, true
}

func (pp *pairProbe) probeUDP(c *vk.Ctx, r *rand.Rand, ep Endpoint, k KeySpec) bool {
	// one client host (two addresses: IPv4 and IPv6), a fresh port per probe
	// a port never used before by this host against this server: a re-used port would hit the
	// association (and key) of an earlier probe
	cport := 20000 + int(c09Port.Add(1)%40000)
	cl, err := newUDPClient(net.IPv4(198, 51, 100, 9).To4(), cport, k)
	if err != nil {
		return true
	}
	defer func() { cl.Close() }()
	id := nextID(c.Batch)
	server, _ := net.ResolveUDPAddr("udp", DialAddr(ep.Addr))
	if server.IP.To4() == nil {
		cl.Close()
		cl, err = newUDPClient(net.ParseIP("2001:db8:c9::9"), cport, k)
		if err != nil {
			return true
		}
	}
	wantID, owned := firstIDFor(ep.Keys, k)
	before, _ := pp.srv.Metrics()
	cl.Send(ssUDP(k, randBytes(r, k.Codec().C.SaltSize), pp.utgt.addr(), mkUDPPayload(id, 1, 24, pick(r, []int{11, 12, 15, 32, 200}))), server)
	wit := map[string]any{"listener": ep, "key": k}
	if owned {
		if _, ok := pp.utgt.waitID(id, udpB); !ok {
			c.Violation("C09/key-rejected-on-its-own-listener", wit)
			return false
		}
		if _, ok := cl.waitReply(k, id|1<<56, udpB); !ok {
			c.Violation("C09/udp-reply-missing-on-own-listener", wit)
			return false
		}
		// attribution (the counters are updated right after the sends: poll briefly)
		deadline := time.Now().Add(5 * time.Second)
		for {
			after, _ := pp.srv.Metrics()
			d := metricSum(after, "shadowsocks_data_bytes", map[string]string{"proto": "udp", "dir": "c>p", "access_key": wantID}) - metricSum(before, "shadowsocks_data_bytes", map[string]string{"proto": "udp", "dir": "c>p", "access_key": wantID})
			n := metricSum(after, "shadowsocks_udp_nat_entries_added", nil) - metricSum(before, "shadowsocks_udp_nat_entries_added", nil)
			if d > 0 && n == 1 {
				return true
			}
			if time.Now().After(deadline) {
				wit["expected_id"], wit["bytes_delta"], wit["nat_entries_delta"] = wantID, d, n
				c.Violation("C09/datagram-not-attributed-to-configured-id", wit)
				return false
			}
			time.Sleep(10 * time.Millisecond)
		}
	}
	// foreign key: fence through a listener/key known to work, then nothing may have arrived
	if pp.fenceC != nil {
		fid := nextID(c.Batch)
		fs, _ := net.ResolveUDPAddr("udp", pp.fenceA)
		pp.fenceC.Send(ssUDP(pp.fenceK, randBytes(r, pp.fenceK.Codec().C.SaltSize), pp.utgt.addr(), mkUDPPayload(fid, 0, 0, 16)), fs)
		if _, ok := pp.utgt.waitID(fid, udpB); !ok {
			c.Inconclusive("udp fence lost")
			return true
		}
	} else {
		time.Sleep(150 * time.Millisecond)
	}
	if len(pp.utgt.findID(id)) != 0 || cl.Count() != 0 {
		c.Violation("C09/key-accepted-on-foreign-listener", wit)
		return false
	}
	after, _ := pp.srv.Metrics()
	if n := metricSum(after, "shadowsocks_udp_nat_entries_added", nil) - metricSum(before, "shadowsocks_udp_nat_entries_added", nil); n > 1 || (n == 1 && pp.fenceC == nil) {
		wit["nat_entries_delta"] = n
		c.Violation("C09/association-created-for-foreign-key", wit)
		return false
	}
	return true
}

func c09Run(c *vk.Ctx) {
	lab.MustSetup(c.RunDir)
	r := c.Rng
	hub := StartTargetHub(0)
	defer hub.Close()
	utgt, err := startUDPTarget("echo", net.IPv4(45, 71, byte(c.Batch), 1).To4(), 7001)
	if err != nil {
		fatalf("udp target: %v", err)
	}
	defer utgt.Stop()
	for ci := 0; ci < c.N(3, 12); ci++ {
		cf := genConf(r, 10000+ci*40)
		// Sometimes a second service claims a listener of the first one under another spelling of
		// the same address. The two cannot both own one socket: either the configuration is
		// refused, or - if it loads - the keys must still be separated per listener as configured.
		aliased := false
		if ci%3 == 2 && len(cf.Services) >= 2 {
			l0 := cf.Services[0].Listeners[0]
			if a := aliasOf(l0.Addr); a != "" {
				cf.Services[1].Listeners = append(cf.Services[1].Listeners, LnSpec{l0.Type, a})
				aliased = true
			}
		}
		c.Progress("C09 config %d: %d services, %d legacy keys, aliased=%v", ci, len(cf.Services), len(cf.Legacy), aliased)
		// (replay history on for two configurations out of three: one cache serves all listeners)
		srv, err := StartServer(c.RunDir, cf, ServerOpts{UDPTimeout: 2 * time.Second, ReplayHistory: []int{0, 1000, 20000}[ci%3]})
		if err != nil && aliased {
			c.Count("aliased_listener_configurations_refused", 1)
			c.Eval("config|aliased-listener-address|refused")
			if srv != nil {
				srv.Stop()
			}
			continue
		}
		if err != nil {
			c.Violation("C09/valid-configuration-does-not-start", map[string]any{"config": cf, "err": err.Error(), "log": srv.LogTail(2000)})
			if srv != nil {
				srv.Stop()
			}
			return
		}
		pp := &pairProbe{srv: srv, hub: hub, utgt: utgt}
		eps := cf.Endpoints()
		// a UDP listener + key known to be its own serves as the fence for negative UDP pairs
		for _, ep := range eps {
			if ep.Type == "udp" {
				pp.fenceK, pp.fenceA = ep.Keys[0], DialAddr(ep.Addr)
				ip := net.IPv4(198, 51, 100, 253).To4()
				if a, _ := net.ResolveUDPAddr("udp", pp.fenceA); a.IP.To4() == nil {
					ip = net.ParseIP("2001:db8:c9::fe")
				}
				pp.fenceC, _ = newUDPClient(ip, 0, pp.fenceK)
				break
			}
		}
		keys := cf.AllKeys()
		ok := true
		pairs, positive := 0, 0
		for _, ep := range eps {
			for _, k := range keys {
				_, owned := firstIDFor(ep.Keys, k)
				c.Eval(fmt.Sprintf("%s|%s|owned=%v|%s|dup-in-owner=%v", ep.Type, ownerKind(ep.Owner), owned, k.Cipher, len(IDsFor(ep.Keys, k)) > 1))
				if ep.Type == "tcp" {
					_, ok = pp.probeTCP(c, r, ep, k)
				} else {
					ok = pp.probeUDP(c, r, ep, k)
				}
				if !ok {
					break
				}
				pairs++
				if owned {
					positive++
				}
			}
			if !ok {
				break
			}
		}
		// history pass: the same host has by now used every key on its own listeners; foreign keys
		// must still be refused everywhere (a sample of the negative pairs, and the positive ones again)
		if ok {
			for _, ep := range eps {
				for _, k := range keys {
					if r.Intn(8) != 0 {
						continue
					}
					c.Eval(fmt.Sprintf("%s|history-pass|owned=%v", ep.Type, len(IDsFor(ep.Keys, k)) > 0))
					if ep.Type == "tcp" {
						_, ok = pp.probeTCP(c, r, ep, k)
					} else {
						ok = pp.probeUDP(c, r, ep, k)
					}
					if !ok {
						break
					}
					pairs++
				}
				if !ok {
					break
				}
			}
		}
		// concurrent pass: many clients authenticate at the same moment on one listener, with its
		// own keys and with foreign ones; the outcome of every exchange is the same as alone
		if ok {
			var tcpEps []Endpoint
			for _, ep := range eps {
				if ep.Type == "tcp" {
					tcpEps = append(tcpEps, ep)
				}
			}
			// first listener by listener, then (last round) every client picks its listener at random, so
			// that handshakes are in progress on several services at the same moment
			rounds := append(append([]Endpoint(nil), tcpEps...), Endpoint{Type: "all"})
			for ri, epRound := range rounds {
				if !ok || len(tcpEps) == 0 {
					continue
				}
				var wg sync.WaitGroup
				var bad atomic.Value
				var done atomic.Int64
				for w := 0; w < 12; w++ {
					wg.Add(1)
					wr := c.SubRng("c09conc", ci*1000+ri*16+w) // a PRNG of its own per round: salts are never repeated (the replay history is on)
					go func(w int) {
						defer wg.Done()
						for i := 0; i < c.N(12, 40) && bad.Load() == nil; i++ {
							ep := epRound
							if ep.Type == "all" {
								ep = tcpEps[wr.Intn(len(tcpEps))]
							}
							k := keys[wr.Intn(len(keys))]
							if wr.Intn(3) > 0 {
								k = ep.Keys[wr.Intn(len(ep.Keys))]
							}
							_, owned := firstIDFor(ep.Keys, k)
							caseN := nextID(c.Batch)
							ip := caseIP4(caseN & 0xffffff)
							pp.hub.On(ip.String(), echoTCP)
							src := net.IPv4(198, 51, 100, byte(10+w))
							if a, _ := net.ResolveTCPAddr("tcp", DialAddr(ep.Addr)); a == nil || a.IP.To4() == nil {
								src = net.ParseIP(fmt.Sprintf("2001:db8:c9::%x", 0x10+w))
							}
							payload := putU64(caseN)
							reply, _, err := tcpExchange(DialAddr(ep.Addr), src, k, randBytes(wr, k.Codec().C.SaltSize), ip, pp.hub.Port, payload, 20*time.Second)
							pp.hub.Off(ip.String())
							echoed := err == nil && bytes.Equal(reply, payload)
							if echoed != owned {
								bad.CompareAndSwap(nil, map[string]any{"listener": ep, "key": k, "echoed": echoed, "owned": owned, "err": fmt.Sprint(err), "phase": "12 clients authenticating concurrently on this listener"})
							}
							done.Add(1)
						}
					}(w)
				}
				wg.Wait()
				c.Eval("tcp|concurrent-pass")
				if v := bad.Load(); v != nil {
					if v.(map[string]any)["owned"].(bool) {
						c.Violation("C09/key-rejected-on-its-own-listener", v)
					} else {
						c.Violation("C09/key-accepted-on-foreign-listener", v)
					}
					ok = false
				}
				c.Count("concurrent_exchanges_checked", done.Load())
			}
		}
		if pp.fenceC != nil {
			pp.fenceC.Close()
		}
		if !srv.Alive() {
			c.Violation("C09/server-exited", srv.LogTail(3000))
			ok = false
		}
		srv.Stop()
		if !ok {
			return
		}
		c.Count("configurations", 1)
		c.Count("listener_key_pairs_checked", int64(pairs))
		c.Count("positive_pairs", int64(positive))
		c.Count("negative_pairs", int64(pairs-positive))
		if len(cf.Legacy) > 0 {
			c.Count("configurations_with_legacy_keys", 1)
		}
		if ci == 0 {
			c.Sample(cf)
		}
	}
	_ = sscodec.TagSize
}

func ownerKind(o string) string {
	if len(o) > 4 && o[:4] == "port" {
		return "legacy-port"
	}
	return "service"
}

func init() {
	vk.Register(&vk.Spec{
		ID:          "C09",
		Level:       "exploration",
		Rule:        "PRNG configurations for the real binary (0..4 services with 1..3 tcp/udp listeners on distinct IPv4/IPv6/wildcard addresses and 1..5 keys, duplicate cipher+secret inside a service under another id, one id carried by two different keys, the same material in other services under other ids, 0..2 legacy ports incl. one key on two ports, mixtures of both formats); every (listener, key) pair of the configuration is probed (sequentially from one client host with a history pass, then 12 clients concurrently per TCP listener and across all TCP listeners at once; replay history 0/1000/20000); class = (listener type, owner kind, owned, cipher, duplicate-in-owner)",
		Assumptions: []string{"attribution is read from /metrics deltas of the running process (tcp_connections_closed, data_bytes, udp_nat_entries_added)", "negative TCP pairs send a FIN so that the 59 s probe timeout does not have to elapse"},
		Batches:     func(t string) int { return map[string]int{"quick": 4, "thorough": 16}[t] },
		Parallel:    func(t string) int { return 4 },
		Timeout:     func(t string) time.Duration { return 25 * time.Minute },
		RaceUpgrade: func(report string) (string, bool) {
			// a data race on the key list makes the outcome of a concurrent lookup undefined
			if strings.Contains(report, "service.(*cipherList)") {
				return "C09/key-list-accessed-without-synchronisation", true
			}
			return "", false
		},
		Run: func(c *vk.Ctx) {
			for _, s := range []string{"configurations", "positive_pairs", "negative_pairs", "configurations_with_legacy_keys"} {
				c.Require(s)
			}
			c09Run(c)
		},
	})
}
