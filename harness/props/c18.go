package props

import (
	"bytes"
	"context"
	"fmt"
	"log/slog"
	"math/rand"
	"net"
	"os"
	"runtime/debug"
	"strings"
	"sync"
	"sync/atomic"
	"syscall"
	"time"

	"verifharness/lab"
	"verifharness/sscodec"
	"verifharness/vk"
)

// C18: no network input can crash the server or leak its resources.
//
// Monitors: the child process itself (a crash is seen by the driver, the case descriptor is
// on disk before the case runs), a capturing slog handler (recovered panics count), a canary
// exchange after every hostile case, and after shutdown: goroutine profile, fd table,
// StreamServe-return ordering.

type panicCatcher struct {
	mu   sync.Mutex
	msgs []string
}

func (p *panicCatcher) Enabled(_ context.Context, l slog.Level) bool { return l >= slog.LevelWarn }
func (p *panicCatcher) Handle(_ context.Context, r slog.Record) error {
	if strings.Contains(r.Message, "Panic") || strings.Contains(r.Message, "panic") {
		p.mu.Lock()
		msg := r.Message
		r.Attrs(func(a slog.Attr) bool { msg += " " + a.String(); return true })
		p.msgs = append(p.msgs, msg)
		p.mu.Unlock()
	}
	return nil
}
func (p *panicCatcher) WithAttrs([]slog.Attr) slog.Handler { return p }
func (p *panicCatcher) WithGroup(string) slog.Handler      { return p }
func (p *panicCatcher) take() []string {
	p.mu.Lock()
	defer p.mu.Unlock()
	m := p.msgs
	p.msgs = nil
	return m
}

// blackholeTarget returns the address of a TCP endpoint that never answers a connection attempt:
// a listening socket with a zero backlog whose accept queue is kept full (the kernel then drops
// further SYNs, the caller's connect stays in SYN-SENT).
func blackholeTarget(ip net.IP, port int) (cleanup func(), err error) {
	fd, err := syscall.Socket(syscall.AF_INET, syscall.SOCK_STREAM, 0)
	if err != nil {
		return nil, err
	}
	syscall.SetsockoptInt(fd, syscall.SOL_SOCKET, syscall.SO_REUSEADDR, 1)
	var sa syscall.SockaddrInet4
	copy(sa.Addr[:], ip.To4())
	sa.Port = port
	if err := syscall.Bind(fd, &sa); err != nil {
		syscall.Close(fd)
		return nil, err
	}
	if err := syscall.Listen(fd, 0); err != nil {
		syscall.Close(fd)
		return nil, err
	}
	var fillers []net.Conn
	for i := 0; i < 4; i++ { // fill the accept queue (never accepted)
		if cn, err := net.DialTimeout("tcp", net.JoinHostPort(ip.String(), fmt.Sprint(port)), 300*time.Millisecond); err == nil {
			fillers = append(fillers, cn)
		}
	}
	return func() {
		for _, f := range fillers {
			f.Close()
		}
		syscall.Close(fd)
	}, nil
}

// tcpCanary: "the service still works" = one of three ordinary exchanges is served (an attempt
// made while the harness itself is starved of CPU can time out without any fault of the server).
func tcpCanary(c *vk.Ctx, r *rand.Rand, rig *TCPRig, hub *TargetHub, k KeySpec) bool {
	for attempt := 0; attempt < 3; attempt++ {
		if tcpCanary1(c, r, rig, hub, k) {
			return true
		}
		c.Count("tcp_canary_retries", 1)
	}
	return false
}

func tcpCanary1(c *vk.Ctx, r *rand.Rand, rig *TCPRig, hub *TargetHub, k KeySpec) bool {
	caseN := nextID(c.Batch)
	ip := caseIP4(caseN & 0xffffff)
	hub.On(ip.String(), func(tc *TargetConn) {
		buf := make([]byte, 256)
		tc.SetReadDeadline(time.Now().Add(udpB))
		n, _ := tc.Read(buf)
		tc.Write(buf[:n])
		tc.Close()
	})
	defer hub.Off(ip.String())
	cl, err := DialSS(rig.Addr4(), randSrc4(r), k, randBytes(r, k.Codec().C.SaltSize))
	if err != nil {
		return false
	}
	defer cl.Conn.Close()
	msg := putU64(caseN)
	cl.WriteRaw(cl.Enc.Encode(append(sscodec.AddrIP(ip, hub.Port, false), msg...), nil))
	got, _ := cl.ReadAllPlain(time.Now().Add(udpB))
	return bytes.Equal(got, msg)
}

func c18TCP(c *vk.Ctx, r *rand.Rand, catcher *panicCatcher) bool {
	keys := RandKeys(r, 5, nil, 0)
	rig := StartTCPRig(keys, TCPRigOpts{Timeout: 600 * time.Millisecond, Raw: r.Intn(2) == 0})
	hub := StartTargetHub(0)
	defer hub.Close()
	dns, err := lab.StartDNS()
	if err != nil {
		fatalf("dns: %v", err)
	}
	defer dns.Close() // unknown names: NXDOMAIN
	type hostile struct {
		class string
		run   func(cl *SSClient, ip net.IP, r *rand.Rand)
	}
	addrOK := func(ip net.IP) []byte { return sscodec.AddrIP(ip, hub.Port, false) }
	var cases []hostile
	for i := 0; i < c.N(24, 96); i++ {
		tb := byte(r.Intn(256))
		if i < 8 {
			tb = []byte{0, 1, 2, 3, 4, 5, 0x80, 0xff}[i]
		}
		rest := randBytes(r, r.Intn(40))
		_ = rest
		cases = append(cases, hostile{fmt.Sprintf("address-type-byte/%s", typeClass(tb)), func(cl *SSClient, ip net.IP, r *rand.Rand) {
			cl.WriteRaw(cl.Enc.Encode(append([]byte{tb}, rest...), nil))
			cl.Conn.CloseWrite()
		}})
	}
	cases = append(cases,
		hostile{"zero-length-domain", func(cl *SSClient, ip net.IP, r *rand.Rand) {
			cl.WriteRaw(cl.Enc.Encode(sscodec.AddrDomain("", 80), nil))
			cl.Conn.CloseWrite()
		}},
		hostile{"255-byte-domain", func(cl *SSClient, ip net.IP, r *rand.Rand) {
			cl.WriteRaw(cl.Enc.Encode(sscodec.AddrDomain(strings.Repeat("a", 251)+".lab", 80), nil))
			cl.Conn.CloseWrite()
		}},
		hostile{"domain-with-nul-and-high-bytes", func(cl *SSClient, ip net.IP, r *rand.Rand) {
			cl.WriteRaw(cl.Enc.Encode(sscodec.AddrDomain("a\x00b\xff\xfe%zone.lab", 80), nil))
			cl.Conn.CloseWrite()
		}},
		hostile{"ip-literal-domain-zoned", func(cl *SSClient, ip net.IP, r *rand.Rand) {
			cl.WriteRaw(cl.Enc.Encode(sscodec.AddrDomain("fe80::1%vlab0", hub.Port), nil))
			cl.Conn.CloseWrite()
		}},
		hostile{"port-zero", func(cl *SSClient, ip net.IP, r *rand.Rand) {
			cl.WriteRaw(cl.Enc.Encode(sscodec.AddrIP(ip, 0, false), nil))
			cl.Conn.CloseWrite()
		}},
	)
	for _, cut := range []int{0, 1, 2, 4, 6, 10, 18} {
		cut := cut
		cases = append(cases, hostile{fmt.Sprintf("truncated-header/%d", cut), func(cl *SSClient, ip net.IP, r *rand.Rand) {
			full := sscodec.AddrIP(caseIP6(7), hub.Port, false)
			if cut%2 == 0 {
				full = sscodec.AddrDomain("example.lab", 80)
			}
			cl.WriteRaw(cl.Enc.Encode(full[:min(cut, len(full))], nil))
			cl.Conn.CloseWrite()
		}})
	}
	for _, lf := range []int{0x4000, 0x8001, 0xC010, 0xFFFF, 0x7FFF} {
		lf := lf
		cases = append(cases, hostile{fmt.Sprintf("length-field-reserved-bits/%#x", lf), func(cl *SSClient, ip net.IP, r *rand.Rand) {
			w := cl.Enc.Chunk(addrOK(ip), -1)
			w = append(w, cl.Enc.Chunk(randBytes(r, lf&0x3FFF), lf)...)
			w = append(w, cl.Enc.Chunk([]byte("after"), -1)...)
			cl.WriteRaw(w)
			cl.Conn.CloseWrite()
		}})
	}
	cases = append(cases,
		hostile{"flood-of-empty-chunks", func(cl *SSClient, ip net.IP, r *rand.Rand) {
			var w []byte
			for i := 0; i < 5000; i++ {
				w = append(w, cl.Enc.Chunk(nil, -1)...)
			}
			w = append(w, cl.Enc.Chunk(addrOK(ip), -1)...)
			cl.WriteRaw(w)
			cl.Conn.CloseWrite()
		}},
		hostile{"empty-chunks-mid-relay", func(cl *SSClient, ip net.IP, r *rand.Rand) {
			w := cl.Enc.Chunk(addrOK(ip), -1)
			for i := 0; i < 2000; i++ {
				w = append(w, cl.Enc.Chunk(nil, -1)...)
			}
			cl.WriteRaw(w)
			cl.Conn.CloseWrite()
		}},
		hostile{"raw-garbage-1MiB", func(cl *SSClient, ip net.IP, r *rand.Rand) {
			cl.WriteRaw(randBytes(r, 1<<20))
			cl.Conn.CloseWrite()
		}},
		hostile{"client-rst-during-handshake", func(cl *SSClient, ip net.IP, r *rand.Rand) {
			cl.WriteRaw(randBytes(r, 20))
			cl.Conn.SetLinger(0)
			cl.Conn.Close()
		}},
		hostile{"client-rst-after-address", func(cl *SSClient, ip net.IP, r *rand.Rand) {
			cl.WriteRaw(cl.Enc.Encode(addrOK(ip), nil))
			time.Sleep(20 * time.Millisecond)
			cl.Conn.SetLinger(0)
			cl.Conn.Close()
		}},
		hostile{"client-rst-mid-relay-with-unread-data", func(cl *SSClient, ip net.IP, r *rand.Rand) {
			cl.WriteRaw(cl.Enc.Encode(append(addrOK(ip), randBytes(r, 3000)...), nil))
			time.Sleep(20 * time.Millisecond)
			cl.Conn.SetLinger(0)
			cl.Conn.Close()
		}},
		hostile{"target-rst-mid-relay", func(cl *SSClient, ip net.IP, r *rand.Rand) {
			hub.On(ip.String(), func(tc *TargetConn) {
				buf := make([]byte, 100)
				tc.Read(buf)
				tc.Write(randBytes(rand.New(rand.NewSource(1)), 2000))
				tc.SetLinger(0)
				tc.Close()
			})
			cl.WriteRaw(cl.Enc.Encode(append(addrOK(ip), 'x'), nil))
			cl.ReadAllPlain(time.Now().Add(3 * time.Second))
			// the client stays connected for a while after the target is gone
			time.Sleep(50 * time.Millisecond)
			cl.WriteRaw(cl.Enc.Encode([]byte("more"), nil))
		}},
		hostile{"target-closes-immediately", func(cl *SSClient, ip net.IP, r *rand.Rand) {
			hub.On(ip.String(), func(tc *TargetConn) { tc.Close() })
			cl.WriteRaw(cl.Enc.Encode(append(addrOK(ip), randBytes(r, 500)...), nil))
			cl.ReadAllPlain(time.Now().Add(3 * time.Second))
		}},
		hostile{"target-rst-on-accept", func(cl *SSClient, ip net.IP, r *rand.Rand) {
			hub.On(ip.String(), func(tc *TargetConn) { tc.SetLinger(0); tc.Close() })
			cl.WriteRaw(cl.Enc.Encode(append(addrOK(ip), randBytes(r, 50000)...), nil))
			cl.ReadAllPlain(time.Now().Add(3 * time.Second))
		}},
	)
	passive := func(tc *TargetConn) {
		buf := make([]byte, 4096)
		for {
			tc.SetReadDeadline(time.Now().Add(udpB))
			if _, err := tc.Read(buf); err != nil {
				break
			}
		}
		tc.Close()
	}
	r.Shuffle(len(cases), func(i, j int) { cases[i], cases[j] = cases[j], cases[i] })
	ck := keys[0]
	if !tcpCanary(c, r, rig, hub, ck) {
		c.Violation("C18/tcp-canary-not-served-before-any-hostile-case", "")
		return false
	}
	var wg sync.WaitGroup
	sem := make(chan struct{}, 8)
	var failed sync.Once
	ok := true
	for i, hc := range cases {
		wg.Add(1)
		sem <- struct{}{}
		hr := c.SubRng("c18tcp", i)
		go func(hc hostile) {
			defer wg.Done()
			defer func() { <-sem }()
			k := keys[hr.Intn(len(keys))]
			caseN := nextID(c.Batch)
			ip := caseIP4(caseN & 0xffffff)
			hub.On(ip.String(), passive)
			defer hub.Off(ip.String())
			c.Progress("C18 tcp %s key=%s", hc.class, k.Cipher)
			cl, err := DialSS(rig.Addr4(), randSrc4(hr), k, randBytes(hr, k.Codec().C.SaltSize))
			if err != nil {
				c.Inconclusive("dial: " + err.Error())
				return
			}
			hc.run(cl, ip, hr)
			watchClose(cl, time.Now().Add(5*time.Second))
			cl.Conn.Close()
			_, done := rig.WaitDone(cl.Local, udpB)
			c.Eval("tcp|" + hc.class + "|" + k.Cipher)
			if !done {
				failed.Do(func() {
					ok = false
					c.Violation("C18/tcp-handler-never-finishes", map[string]any{"class": hc.class})
				})
				return
			}
			if !tcpCanary(c, hr, rig, hub, ck) {
				failed.Do(func() {
					ok = false
					c.Violation("C18/tcp-service-affected-by-hostile-connection", map[string]any{"after": hc.class})
				})
				return
			}
			c.Count("tcp_hostile_cases_survived", 1)
		}(hc)
	}
	wg.Wait()
	if p := catcher.take(); len(p) > 0 {
		c.Violation("C18/panic-in-handler", map[string]any{"log": p})
		return false
	}
	if !ok {
		return false
	}
	// all client connections are over: the server must have closed every target connection it
	// opened (the passive targets end as soon as they see EOF or RST; their own read deadline is 10 s)
	for i := 0; i < 300 && hub.Open.Load() > 0; i++ {
		time.Sleep(10 * time.Millisecond)
	}
	if n := hub.Open.Load(); n > 0 {
		c.Violation("C18/target-connection-left-open-after-client-connection-ended", map[string]any{"target_connections_still_open": n})
		return false
	}
	c.Count("target_connections_all_closed_audits", 1)
	// bursts of failing accepts (descriptor exhaustion during a flood): once accept works again,
	// connections are served within the bound, however long the burst was
	for i := 0; i < c.N(2, 6); i++ {
		burst := int64(11 + r.Intn(12))
		before := rig.acceptFaultsReturned.Load()
		rig.acceptFaults.Store(burst)
		// the accept call pending now is a real one: this connection ends it, the burst follows
		if !tcpCanary(c, r, rig, hub, keys[0]) {
			c.Violation("C18/tcp-service-affected-by-hostile-connection", map[string]any{"after": "arming accept failures"})
			return false
		}
		t0 := time.Now()
		served := tcpCanary1(c, r, rig, hub, keys[i%len(keys)])
		if got := rig.acceptFaultsReturned.Load() - before; !served || got < burst {
			c.Violation("C18/listener-stalls-after-a-burst-of-accept-failures", map[string]any{"consecutive_accept_failures_injected": burst, "returned_so_far": got, "error": "accept tcp: too many open files", "next_connection_served_within_10s": served, "waited": time.Since(t0).String()})
			return false
		}
		c.Count("accept_failure_bursts_survived", 1)
		c.Max("max_consecutive_accept_failures", burst)
		c.Eval(fmt.Sprintf("tcp|accept-failure-burst|n=%s", sizeBucket(int(burst))))
	}
	// listener shutdown mid-handshake and mid-relay: StreamServe returns only after all handlers
	var open []*SSClient
	for i := 0; i < 6; i++ {
		k := keys[i%len(keys)]
		caseN := nextID(c.Batch)
		ip := caseIP4(caseN & 0xffffff)
		hub.On(ip.String(), passive)
		cl, err := DialSS(rig.Addr4(), randSrc4(r), k, randBytes(r, k.Codec().C.SaltSize))
		if err != nil {
			continue
		}
		switch i % 3 {
		case 0: // mid-handshake: nothing sent yet
		case 1: // mid-handshake: partial
			cl.WriteRaw(randBytes(r, 20))
		default: // mid-relay
			cl.WriteRaw(cl.Enc.Encode(append(addrOK(ip), 'x'), nil))
		}
		open = append(open, cl)
	}
	time.Sleep(60 * time.Millisecond)
	rig.Ln.Close()
	returnedEarly := false
	select {
	case <-rig.done:
		if rig.active.Load() != 0 {
			returnedEarly = true
		}
	case <-time.After(200 * time.Millisecond):
	}
	if returnedEarly {
		c.Violation("C18/serving-stopped-before-handlers-returned", map[string]any{"handlers_running": rig.active.Load()})
		return false
	}
	for _, cl := range open {
		cl.Conn.Close()
	}
	select {
	case <-rig.done:
	case <-time.After(udpB + 2*time.Second):
		c.Violation("C18/serving-does-not-stop-after-listener-closed", map[string]any{"handlers_running": rig.active.Load()})
		return false
	}
	if rig.serveReturned.Load() < rig.lastReturn.Load() || rig.active.Load() != 0 {
		c.Violation("C18/serving-stopped-before-handlers-returned", map[string]any{"handlers_running": rig.active.Load()})
		return false
	}
	c.Count("tcp_shutdown_orderings_checked", 1)
	c.Eval("tcp|listener-shutdown-mid-handshake-and-mid-relay")
	// a handler is waiting for a target that never answers when its listener is closed and its
	// client leaves: it does not sit out the connect timeout (minutes) - serving stops within the bound
	for i := 0; i < c.N(2, 6); i++ {
		bip := net.IPv4(45, 71, byte(c.Batch), byte(100+i))
		cleanup, err := blackholeTarget(bip, 7070)
		if err != nil {
			c.Note("no black-hole target: %v", err)
			break
		}
		rg := StartTCPRig(keys, TCPRigOpts{Timeout: 600 * time.Millisecond, Raw: i%2 == 0})
		k := keys[i%len(keys)]
		cl, err := DialSS(rg.Addr4(), randSrc4(r), k, randBytes(r, k.Codec().C.SaltSize))
		if err != nil {
			cleanup()
			rg.Close(time.Second)
			continue
		}
		cl.WriteRaw(cl.Enc.Encode(append(sscodec.AddrIP(bip, 7070, false), 'b'), nil))
		rec := rg.Rec(cl.Local, 5*time.Second)
		for j := 0; j < 500 && rec != nil && len(rec.Snap().Auth) == 0; j++ {
			time.Sleep(2 * time.Millisecond)
		}
		time.Sleep(150 * time.Millisecond) // the handler is in its dial now
		stillDialing := rec != nil && len(rec.Snap().Closed) == 0
		cl.Conn.Close()
		t0 := time.Now()
		rg.Ln.Close()
		var stopped bool
		select {
		case <-rg.done:
			stopped = true
		case <-time.After(udpB):
		}
		cleanup()
		c.Eval("tcp|listener-closed-while-a-handler-dials-a-silent-target")
		if !stillDialing {
			c.Inconclusive("black-hole target: the dial did not hang (the handler had finished before the listener was closed)")
		} else if !stopped {
			c.Violation("C18/serving-does-not-stop-after-listener-closed", map[string]any{"scenario": "a handler was dialling a target that never answers; its client left and the listener was closed", "waited": time.Since(t0).String(), "handlers_running": rg.active.Load()})
			return false
		} else {
			c.Count("pending_dials_abandoned_at_listener_close", 1)
		}
		if !stopped {
			rg.Close(time.Second)
		}
	}
	// the listener closes immediately after a connection was accepted (its handler has not even
	// started): serving must still not stop before that handler has returned
	for i := 0; i < c.N(20, 100); i++ {
		k := keys[i%len(keys)]
		rg := StartTCPRig(keys, TCPRigOpts{Timeout: 600 * time.Millisecond, CloseAfterAccepts: 1, Raw: i%2 == 0})
		caseN := nextID(c.Batch)
		ip := caseIP4(caseN & 0xffffff)
		hub.On(ip.String(), func(tc *TargetConn) {
			buf := make([]byte, 64)
			tc.SetReadDeadline(time.Now().Add(udpB))
			n, _ := tc.Read(buf)
			time.Sleep(40 * time.Millisecond) // the handler is busy for a while
			tc.Write(buf[:n])
			tc.Close()
		})
		cl, err := DialSS(rg.Addr4(), randSrc4(r), k, randBytes(r, k.Codec().C.SaltSize))
		if err != nil {
			hub.Off(ip.String())
			rg.Close(time.Second)
			continue
		}
		cl.WriteRaw(cl.Enc.Encode(append(addrOK(ip), 'y'), nil))
		got, _ := cl.ReadAllPlain(time.Now().Add(udpB))
		cl.Conn.Close()
		select {
		case <-rg.done:
		case <-time.After(udpB):
			c.Violation("C18/serving-does-not-stop-after-listener-closed", "listener closed right after accept")
			return false
		}
		rec, _ := rg.WaitDone(cl.Local, udpB)
		hub.Off(ip.String())
		c.Eval("tcp|listener-closed-right-after-accept")
		if rec == nil || rec.Snap().Returned.IsZero() || rg.serveReturned.Load() < rec.Snap().Returned.UnixNano() {
			c.Violation("C18/serving-stopped-before-handlers-returned", map[string]any{"scenario": "listener closed right after accept", "round": i})
			return false
		}
		_ = got
		c.Count("close_right_after_accept_orderings_checked", 1)
	}
	return true
}

func typeClass(b byte) string {
	switch {
	case b == 1 || b == 3 || b == 4:
		return fmt.Sprintf("valid-%d", b)
	case b == 0:
		return "zero"
	case b < 16:
		return "low"
	case b >= 0x80:
		return "high-bit"
	}
	return "other"
}

func c18UDP(c *vk.Ctx, r *rand.Rand, catcher *panicCatcher) bool {
	keys := RandKeys(r, 4, nil, 0)
	w := newC03World(c, r, keys, 400*time.Millisecond)
	closed := false
	defer func() {
		if !closed {
			w.close()
		}
	}()
	canaryClient, _ := newUDPClient(net.IPv4(198, 51, 100, 240).To4(), 0, keys[0])
	defer canaryClient.Close()
	canary := func() bool {
		// UDP may legitimately lose a datagram: "the service still works" = one of three attempts is served
		for attempt := 0; attempt < 3; attempt++ {
			id := nextID(c.Batch)
			t := w.targets[0]
			canaryClient.Send(ssUDP(keys[0], randBytes(r, keys[0].Codec().C.SaltSize), t.addr(), mkUDPPayload(id, 1, 20, 30)), w.rig.Addr4())
			if _, ok := t.waitID(id, udpB/2); !ok {
				c.Count("udp_canary_retries", 1)
				continue
			}
			if _, ok := canaryClient.waitReply(keys[0], id|1<<56, udpB/2); ok {
				return true
			}
			c.Count("udp_canary_retries", 1)
		}
		return false
	}
	if !canary() {
		c.Violation("C18/udp-canary-not-served-before-any-hostile-case", "")
		return false
	}
	check := func(class string) bool {
		if !canary() {
			c.Violation("C18/udp-service-affected-by-hostile-datagram", map[string]any{"after": class})
			return false
		}
		if p := catcher.take(); len(p) > 0 {
			c.Violation("C18/panic-in-udp-loop", map[string]any{"after": class, "log": p})
			return false
		}
		c.Count("udp_hostile_cases_survived", 1)
		return true
	}
	// --- hostile client datagrams ---
	for i := 0; i < c.N(60, 300); i++ {
		k := keys[r.Intn(len(keys))]
		ss := k.Codec().C.SaltSize
		cl, err := NewUDPEnd(net.IPv4(198, 51, 100, byte(1+r.Intn(200))).To4(), 0)
		if err != nil {
			continue
		}
		var pt []byte
		class := ""
		switch r.Intn(10) {
		case 9:
			// a destination the kernel refuses to send to: the write to the target fails
			pt, class = append(sscodec.AddrIP(net.IPv4(45, 70, 0, byte(1+r.Intn(200))), 0, false), 'p'), "destination-port-0"
		case 0:
			pt, class = append([]byte{byte(r.Intn(256))}, randBytes(r, r.Intn(30))...), "address-type-byte"
		case 1:
			pt, class = sscodec.AddrDomain("", 53), "zero-length-domain"
		case 2:
			pt, class = sscodec.AddrDomain(strings.Repeat("b", 255), 53), "255-byte-domain"
		case 3:
			full := sscodec.AddrIP(caseIP6(1), 7001, false)
			pt, class = full[:r.Intn(len(full))], "truncated-header"
		case 4:
			pt, class = nil, "empty-plaintext"
		case 5:
			pt, class = append(w.targets[0].addr(), randBytes(r, 65507-ss-16-7)...), "largest-datagram"
		case 6:
			pt, class = append(sscodec.AddrIP(net.IPv4(224, 0, 0, 1), 7001, false), 'm'), "multicast-destination"
		case 7:
			pt, class = append(sscodec.AddrIP(net.IPv4bcast, 7001, false), 'b'), "broadcast-destination"
		default:
			pt, class = append(sscodec.AddrDomain("fe80::1%vlab0", 7001), 'z'), "zoned-literal-domain"
		}
		pkt := sscodec.PackUDP(k.Codec(), randBytes(r, ss), pt)
		if r.Intn(6) == 0 {
			pkt = randBytes(r, r.Intn(100))
			class = "raw-garbage"
		}
		c.Progress("C18 udp client datagram %s len=%d", class, len(pkt))
		cl.Send(pkt, w.rig.Addr4())
		if i%4 == 0 {
			// the same on a live association
			id := nextID(c.Batch)
			cl.Send(ssUDP(k, randBytes(r, ss), w.targets[0].addr(), mkUDPPayload(id, 0, 0, 20)), w.rig.Addr4())
			w.targets[0].waitID(id, udpB)
			cl.Send(pkt, w.rig.Addr4())
		}
		c.Eval("udp|client|" + class + "|" + k.Cipher)
		ok := check(class)
		cl.Close()
		if !ok {
			return false
		}
	}
	// --- hostile target replies: sizes around the packing boundaries, all source families ---
	a0, a1, llErr := lab.LinkLocal()
	sizes := []int{0, 1, 7, 8, 1400, 65000, 65451, 65452, 65453, 65468, 65469, 65470, 65484, 65485, 65486, 65507}
	type src struct {
		name string
		ip   net.IP
		zone string
	}
	sources := []src{{"v4", net.IPv4(45, 70, 0, 1).To4(), ""}, {"v6", net.ParseIP("2606:4700::70:1"), ""}}
	if llErr == nil {
		sources = append(sources, src{"zoned-link-local", a0.IP, a0.Zone})
	} else {
		c.Inconclusive("no link-local addresses: " + llErr.Error())
	}
	for _, k := range keys {
		cl, err := newUDPClient(net.IPv4(198, 51, 100, byte(210+r.Intn(20))).To4(), 0, k)
		if err != nil {
			continue
		}
		id := nextID(c.Batch)
		cl.Send(ssUDP(k, randBytes(r, k.Codec().C.SaltSize), w.targets[0].addr(), mkUDPPayload(id, 0, 0, 20)), w.rig.Addr4())
		g, ok := w.targets[0].waitID(id, udpB)
		if !ok {
			cl.Close()
			continue
		}
		_, p, _ := net.SplitHostPort(g.From)
		var natPort int
		fmt.Sscan(p, &natPort)
		for _, s := range sources {
			sock, err := net.ListenUDP("udp", &net.UDPAddr{IP: s.ip, Zone: s.zone})
			if err != nil {
				c.Inconclusive("bind " + s.name + ": " + err.Error())
				continue
			}
			for _, size := range sizes {
				if c.Tier == "quick" && r.Intn(2) == 0 && size > 8 && size < 65000 {
					continue
				}
				dst := &net.UDPAddr{Port: natPort}
				switch s.name {
				case "v4":
					dst.IP = net.IPv4(203, 0, 113, 99)
				case "v6":
					dst.IP = net.ParseIP("2001:db8:99::1")
				default:
					dst.IP, dst.Zone = a1.IP, a0.Zone
				}
				c.Progress("C18 udp reply source=%s size=%d key=%s", s.name, size, k.Cipher)
				sock.WriteToUDP(randBytes(r, size), dst)
				// keep the association alive
				id := nextID(c.Batch)
				cl.Send(ssUDP(k, randBytes(r, k.Codec().C.SaltSize), w.targets[0].addr(), mkUDPPayload(id, 0, 0, 20)), w.rig.Addr4())
				w.targets[0].waitID(id, udpB)
				c.Eval(fmt.Sprintf("udp|reply|%s|size=%d", s.name, size))
				if !check(fmt.Sprintf("reply from %s of %d bytes", s.name, size)) {
					sock.Close()
					cl.Close()
					return false
				}
				c.Count("udp_reply_cases_"+s.name, 1)
			}
			sock.Close()
		}
		cl.Close()
	}
	// --- a datagram of a known client is on its way to the target socket while the association
	// expires (the packet loop has looked the entry up; the reaper removes it and closes its socket;
	// the write then fails with "use of closed network connection"): one lost datagram, nothing more ---
	for i := 0; i < c.N(3, 10); i++ {
		var armed atomic.Bool
		var straddled atomic.Int64
		w.rig.Nat.SetOnNew(func(s *NatSock) {
			if !armed.CompareAndSwap(true, false) {
				return
			}
			writes := 0 // only the packet loop writes to this socket
			s.FailWrite = func(dst net.Addr, n int) error {
				writes++
				if writes == 2 {
					for dl := time.Now().Add(5 * time.Second); time.Now().Before(dl); time.Sleep(2 * time.Millisecond) {
						if _, n := s.Closed(); n > 0 {
							straddled.Add(1)
							break
						}
					}
				}
				return nil
			}
		})
		armed.Store(true)
		k := keys[i%len(keys)]
		cl, err := newUDPClient(net.IPv4(198, 51, 102, byte(1+i)).To4(), 0, k)
		if err != nil {
			w.rig.Nat.SetOnNew(nil)
			continue
		}
		id := nextID(c.Batch)
		cl.Send(ssUDP(k, randBytes(r, k.Codec().C.SaltSize), w.targets[0].addr(), mkUDPPayload(id, 0, 0, 20)), w.rig.Addr4())
		_, ok1 := w.targets[0].waitID(id, udpB)
		c.Progress("C18 udp write straddling expiry key=%s", k.Cipher)
		cl.Send(ssUDP(k, randBytes(r, k.Codec().C.SaltSize), w.targets[0].addr(), mkUDPPayload(nextID(c.Batch), 0, 0, 20)), w.rig.Addr4())
		for dl := time.Now().Add(6 * time.Second); ok1 && straddled.Load() == 0 && time.Now().Before(dl); {
			time.Sleep(5 * time.Millisecond)
		}
		w.rig.Nat.SetOnNew(nil)
		cl.Close()
		if straddled.Load() == 0 {
			c.Count("udp_expiry_straddles_not_reached", 1)
			continue
		}
		c.Count("udp_writes_straddling_expiry", 1)
		c.Eval("udp|client|write-on-association-expiring-meanwhile|" + k.Cipher)
		if !check("datagram written while its association expired") {
			return false
		}
	}
	// --- a failure while handling ONE datagram (injected through H2: the write to the target panics,
	// once): that datagram is lost, the listener and everybody else carry on ---
	{
		var armed atomic.Bool
		var fired atomic.Bool
		w.rig.Nat.SetOnNew(func(s *NatSock) {
			if !armed.CompareAndSwap(true, false) {
				return
			}
			s.FailWrite = func(dst net.Addr, n int) error {
				if fired.CompareAndSwap(false, true) {
					panic("injected: failure while handling one datagram")
				}
				return nil
			}
		})
		armed.Store(true)
		k := keys[0]
		if cl, err := newUDPClient(net.IPv4(198, 51, 102, 99).To4(), 0, k); err == nil {
			c.Progress("C18 udp injected panic in the write to the target")
			cl.Send(ssUDP(k, randBytes(r, k.Codec().C.SaltSize), w.targets[0].addr(), mkUDPPayload(nextID(c.Batch), 0, 0, 20)), w.rig.Addr4())
			for dl := time.Now().Add(udpB); !fired.Load() && time.Now().Before(dl); {
				time.Sleep(time.Millisecond)
			}
			time.Sleep(20 * time.Millisecond)
			cl.Close()
		}
		w.rig.Nat.SetOnNew(nil)
		if fired.Load() {
			catcher.take() // the server's own recovery logs the injected panic: expected, not a finding
			c.Eval("udp|fault|panic-while-handling-one-datagram")
			if !check("a panic while handling one datagram (injected)") {
				return false
			}
			c.Count("udp_injected_panics_survived", 1)
		}
	}
	// --- many clients with expiring associations against concurrent lookups ---
	stop := make(chan struct{})
	var wg sync.WaitGroup
	for g := 0; g < 12; g++ {
		wg.Add(1)
		gr := c.SubRng("c18churn", g)
		go func(g int) {
			defer wg.Done()
			for i := 0; ; i++ {
				select {
				case <-stop:
					return
				default:
				}
				cl, err := NewUDPEnd(net.IPv4(198, 51, 101, byte(1+g)).To4(), 0)
				if err != nil {
					return
				}
				k := keys[gr.Intn(len(keys))]
				var lastID uint64
				var lastT *udpTarget
				for j := 0; j < 3; j++ {
					lastID, lastT = nextID(c.Batch), w.targets[gr.Intn(3)]
					cl.Send(ssUDP(k, randBytes(gr, k.Codec().C.SaltSize), lastT.addr(), mkUDPPayload(lastID, 1, 30, 40)), w.rig.Addr4())
					time.Sleep(time.Duration(gr.Intn(3)) * time.Millisecond)
				}
				// closed loop: the senders never run ahead of the server by more than a few datagrams
				// (an unbounded backlog in the receive queue would only measure the machine's load)
				lastT.waitID(lastID, time.Second)
				cl.Close()
			}
		}(g)
	}
	time.Sleep(time.Duration(c.N(1500, 4000)) * time.Millisecond)
	close(stop)
	wg.Wait()
	c.Eval("udp|association-churn-vs-lookups")
	if !check("association churn") {
		return false
	}
	// shutdown: Handle returns
	closed = true
	for _, t := range w.targets {
		t.Stop()
	}
	if !w.rig.Close(udpB) {
		c.Violation("C18/packet-handler-does-not-return-after-listener-closed", "")
		return false
	}
	// every outbound socket the server created was closed BY THE SERVER (hook H2 sees the Close
	// call; the fd table alone cannot tell, because Go's finalizers close forgotten sockets)
	deadline := time.Now().Add(udpB)
	for _, s := range w.rig.Nat.All() {
		for {
			if _, n := s.Closed(); n > 0 || time.Now().After(deadline) {
				break
			}
			time.Sleep(2 * time.Millisecond)
		}
		if _, n := s.Closed(); n == 0 {
			c.Violation("C18/outbound-socket-never-closed", map[string]any{"socket": s.Local, "sockets_created": len(w.rig.Nat.All())})
			return false
		}
	}
	c.Count("outbound_sockets_closed_by_server", int64(len(w.rig.Nat.All())))
	return true
}

func c18Run(c *vk.Ctx) {
	lab.MustSetup(c.RunDir)
	r := c.Rng
	catcher := &panicCatcher{}
	slog.SetDefault(slog.New(catcher))
	baseFD := len(lab.FDs(os.Getpid()))
	// With the garbage collector off, a socket the server forgot to close stays open (otherwise
	// Go's finalizers would close it at the next collection and hide the leak).
	gc := debug.SetGCPercent(-1)
	okTCP := c18TCP(c, r, catcher)
	if okTCP {
		deadline := time.Now().Add(5 * time.Second)
		for len(lab.FDs(os.Getpid())) > baseFD+1 && time.Now().Before(deadline) {
			time.Sleep(20 * time.Millisecond)
		}
		if n := len(lab.FDs(os.Getpid())); n > baseFD+1 {
			c.Violation("C18/socket-leak", map[string]any{"phase": "tcp, garbage collector off", "baseline": baseFD, "now": n})
			okTCP = false
		} else {
			c.Count("fd_audits_with_gc_off", 1)
		}
	}
	debug.SetGCPercent(gc)
	if !okTCP {
		return
	}
	if !c18UDP(c, r, catcher) {
		return
	}
	// everything the server created is gone
	if left := lab.WaitNoGoroutines(udpB, []string{"outline-ss-server/service.", "outline-sdk/"}, nil); len(left) > 0 {
		c.Violation("C18/goroutine-leak", map[string]any{"count": len(left), "stack": left[0]})
		return
	}
	deadline := time.Now().Add(udpB)
	for len(lab.FDs(os.Getpid())) > baseFD+1 && time.Now().Before(deadline) {
		time.Sleep(20 * time.Millisecond)
	}
	if n := len(lab.FDs(os.Getpid())); n > baseFD+1 {
		c.Violation("C18/socket-leak", map[string]any{"baseline": baseFD, "now": n, "fds": lab.FDs(os.Getpid())})
		return
	}
	c.Count("leak_audits_passed", 1)
}

func init() {
	vk.Register(&vk.Spec{
		ID:    "C18",
		Level: "exploration",
		Rule: "TCP: authenticated plaintexts with every class of address-type byte, zero-length/255-byte/binary/zoned-literal domains, header truncations, length fields with reserved bits, floods of empty chunks, 1 MiB garbage, client/target RSTs at every stage, listener shutdown mid-handshake and mid-relay, 8 hostile connections in parallel, bursts of 11..22 failing accepts (EMFILE), canary exchange after each; " +
			"UDP: hostile client datagrams (address-type bytes, domains, truncations, empty plaintext, largest datagram, multicast/broadcast destinations, destination port 0) on fresh and live associations, target replies of 0..65507 bytes around the packing boundaries from IPv4, IPv6 and zoned link-local sources, a write to the target socket straddling the expiry of its association (H2), association churn against lookups; then goroutine/fd audit and shutdown ordering; class = (proto, input class, cipher|source|size)",
		Assumptions: []string{"recovered panics count as violations (captured through the default slog handler)", "a crash of the child process is reported by the driver with the last case logged before execution"},
		Batches:     func(t string) int { return map[string]int{"quick": 4, "thorough": 16}[t] },
		Parallel:    func(t string) int { return 4 },
		Timeout:     func(t string) time.Duration { return 25 * time.Minute },
		RaceUpgrade: func(report string) (string, bool) {
			// An unsynchronised access to a Go map is not only a race: the runtime aborts the
			// process ("fatal error: concurrent map read and map write") whenever it notices.
			if strings.Contains(report, "runtime.map") && strings.Contains(report, "outline-ss-server/") {
				return "C18/unsynchronised-map-access-is-fatal-in-production", true
			}
			return "", false
		},
		Run: func(c *vk.Ctx) {
			for _, s := range []string{"tcp_hostile_cases_survived", "udp_hostile_cases_survived", "tcp_shutdown_orderings_checked", "accept_failure_bursts_survived", "udp_writes_straddling_expiry", "udp_injected_panics_survived", "pending_dials_abandoned_at_listener_close", "udp_reply_cases_v4", "udp_reply_cases_v6", "udp_reply_cases_zoned-link-local", "leak_audits_passed", "close_right_after_accept_orderings_checked"} {
				c.Require(s)
			}
			c18Run(c)
		},
	})
}
