package props

import (
	"bytes"
	"fmt"
	"io"
	"net"
	"regexp"
	"runtime"
	"runtime/pprof"
	"sort"
	"strings"
	"sync"
	"sync/atomic"
	"time"

	"github.com/Jigsaw-Code/outline-ss-server/service"

	"verifharness/lab"
	"verifharness/vk"
)

// C13: listener management never deadlocks.
//
// Workload: G goroutines issue random ListenStream/ListenPacket/Close on few addresses
// (weighted to one), including addresses that cannot be bound (occupied by a foreign socket)
// and dialers/senders that keep the fan-out goroutines busy, at several GOMAXPROCS.
// Oracle: every call returns. A stall (no operation completed for the whole watchdog
// period) is classified from the goroutine dump: goroutines parked in sync.Mutex.Lock under
// service/listeners.go frames => deadlock (violation, the set of blocked functions is the
// signature); anything else => inconclusive.

var reFrame = regexp.MustCompile(`(?m)^(\S+)\(`)

// blockedInListeners returns the in-repo listener functions of goroutines parked on a mutex.
func blockedInListeners(dump string) []string {
	set := map[string]bool{}
	for _, g := range strings.Split(dump, "\n\n") {
		// parked on a mutex, or a call issued by this check (listen/close) that has not returned
		if !strings.Contains(g, "sync.(*Mutex).Lock") && !strings.Contains(g, "sync.(*RWMutex)") && !strings.Contains(g, "verifharness/props.c13") {
			continue
		}
		if !strings.Contains(g, "outline-ss-server/service.") {
			continue
		}
		for _, m := range reFrame.FindAllStringSubmatch(g, -1) {
			f := m[1]
			if strings.Contains(f, "outline-ss-server/service.") && (strings.Contains(f, "istener") || strings.Contains(f, "virtualPacketConn")) {
				set[f[strings.LastIndex(f, "/")+1:]] = true
				break
			}
		}
	}
	out := []string{}
	for k := range set {
		out = append(out, k)
	}
	sort.Strings(out)
	return out
}

func goroutineDump() string {
	var buf bytes.Buffer
	pprof.Lookup("goroutine").WriteTo(&buf, 2)
	return buf.String()
}

type lnHandle struct {
	closeFn func() error
	kind    string
	addr    string
}

func c13Run(c *vk.Ctx) {
	lab.MustSetup(c.RunDir)
	r := c.Rng
	rounds := c.N(150, 600)
	defer runtime.GOMAXPROCS(runtime.GOMAXPROCS(0))
	for round := 0; round < rounds; round++ {
		procs := pick(r, []int{1, 2, 4, 16})
		runtime.GOMAXPROCS(procs)
		m := service.NewListenerManager()
		basePort := 10000 + (round%800)*10
		addrs := []string{fmt.Sprintf("127.0.0.1:%d", basePort), fmt.Sprintf("[::1]:%d", basePort+1), fmt.Sprintf("203.0.113.9:%d", basePort+2)}
		// an address nobody can bind: held by foreign sockets for the whole round
		busy := fmt.Sprintf("127.0.0.1:%d", basePort+3)
		ft, err1 := net.Listen("tcp", busy)
		fu, err2 := net.ListenPacket("udp", busy)
		withBusy := err1 == nil && err2 == nil && r.Intn(3) > 0
		G := 2 + r.Intn(15)
		opsPer := c.N(60, 150)
		var ops atomic.Int64
		var bindFailures atomic.Int64
		var listenErr atomic.Value // a listen on an address nobody else holds failed: the manager lost track of its own socket
		var pool struct {
			sync.Mutex
			hs []lnHandle
		}
		var wg sync.WaitGroup
		stopTraffic := make(chan struct{})
		// traffic that keeps fan-out goroutines holding connections / datagrams
		var twg sync.WaitGroup
		if r.Intn(2) == 0 {
			twg.Add(1)
			go func() {
				defer twg.Done()
				for {
					select {
					case <-stopTraffic:
						return
					default:
					}
					if cn, err := net.DialTimeout("tcp", addrs[0], 50*time.Millisecond); err == nil {
						cn.Close()
					}
					if u, err := net.Dial("udp", addrs[0]); err == nil {
						u.Write([]byte("x"))
						u.Close()
					}
					time.Sleep(200 * time.Microsecond)
				}
			}()
		}
		c.Progress("C13 round=%d G=%d procs=%d busy=%v", round, G, procs, withBusy)
		for g := 0; g < G; g++ {
			wg.Add(1)
			gr := c.SubRng("c13", round*64+g)
			go func() {
				defer wg.Done()
				for i := 0; i < opsPer; i++ {
					addr := addrs[0]
					if x := gr.Intn(10); x >= 7 {
						addr = addrs[1+gr.Intn(2)]
					} else if withBusy && x == 6 {
						addr = busy
					}
					switch gr.Intn(5) {
					case 0, 1:
						ln, err := m.ListenStream(addr)
						if err != nil {
							bindFailures.Add(1)
							if addr != busy {
								listenErr.CompareAndSwap(nil, "ListenStream("+addr+"): "+err.Error())
							}
						} else {
							pool.Lock()
							pool.hs = append(pool.hs, lnHandle{ln.Close, "stream", addr})
							pool.Unlock()
						}
					case 2:
						pc, err := m.ListenPacket(addr)
						if err != nil {
							bindFailures.Add(1)
							if addr != busy {
								listenErr.CompareAndSwap(nil, "ListenPacket("+addr+"): "+err.Error())
							}
						} else {
							pool.Lock()
							pool.hs = append(pool.hs, lnHandle{pc.Close, "packet", addr})
							pool.Unlock()
						}
					default:
						pool.Lock()
						var h *lnHandle
						if n := len(pool.hs); n > 0 {
							j := gr.Intn(n)
							hh := pool.hs[j]
							pool.hs[j] = pool.hs[n-1]
							pool.hs = pool.hs[:n-1]
							h = &hh
						}
						pool.Unlock()
						if h != nil {
							h.closeFn()
						}
					}
					ops.Add(1)
				}
			}()
		}
		done := make(chan struct{})
		go func() { wg.Wait(); close(done) }()
		stalled := false
		last := int64(-1)
		for !stalled {
			select {
			case <-done:
			case <-time.After(15 * time.Second):
				if cur := ops.Load(); cur == last {
					stalled = true
				} else {
					last = cur
				}
				continue
			}
			break
		}
		if stalled {
			dump := goroutineDump()
			blocked := blockedInListeners(dump)
			if len(blocked) > 0 {
				c.Violation("C13/deadlock:"+strings.Join(blocked, "+"), map[string]any{"round": round, "goroutines": G, "gomaxprocs": procs, "ops_completed": ops.Load(), "blocked_on_mutex_in": blocked, "dump_head": dump[:min(len(dump), 6000)]})
			} else {
				c.Inconclusive(fmt.Sprintf("round %d stalled but no goroutine is parked on a mutex in listeners.go", round))
			}
			close(stopTraffic)
			return // the manager's goroutines are stuck; this child cannot go on
		}
		close(stopTraffic)
		twg.Wait()
		if v := listenErr.Load(); v != nil {
			c.Violation("C13/listen-fails-on-an-address-only-the-manager-uses", map[string]any{"round": round, "error": v, "goroutines": G})
			return
		}
		// close what is left, then the manager must still be usable
		pool.Lock()
		left := pool.hs
		pool.hs = nil
		pool.Unlock()
		usable := make(chan string, 1)
		go func() {
			for _, h := range left {
				h.closeFn()
			}
			for _, a := range addrs {
				ln, err := m.ListenStream(a)
				if err != nil {
					usable <- "ListenStream after the round: " + err.Error()
					return
				}
				pc, err := m.ListenPacket(a)
				if err != nil {
					usable <- "ListenPacket after the round: " + err.Error()
					return
				}
				ln.Close()
				pc.Close()
			}
			usable <- ""
		}()
		select {
		case msg := <-usable:
			if msg != "" {
				c.Violation("C13/manager-unusable-after-round", map[string]any{"round": round, "error": msg})
				return
			}
		case <-time.After(20 * time.Second):
			dump := goroutineDump()
			c.Violation("C13/deadlock:"+strings.Join(blockedInListeners(dump), "+"), map[string]any{"round": round, "phase": "final listen/close", "dump_head": dump[:min(len(dump), 6000)]})
			return
		}
		if ft != nil {
			ft.Close()
		}
		if fu != nil {
			fu.Close()
		}
		c.Count("ops_completed", ops.Load())
		c.Count("bind_failures_returned", bindFailures.Load())
		c.Eval(fmt.Sprintf("G=%s|procs=%d|busy-addr=%v", sizeBucket(G), procs, withBusy))
		if round == 0 {
			c.Sample(map[string]any{"goroutines": G, "gomaxprocs": procs, "ops": ops.Load(), "addresses": addrs, "unbindable_address": busy})
		}
	}
	c13Forced(c)
	c13ManyAddresses(c)
}

// c13ManyAddresses: a configuration with many ports goes away: 33..110 (address, kind) pairs are
// acquired, then all their handles are closed with no listen call in between (sequentially or
// from several goroutines); every Close returns and the manager stays usable.
func c13ManyAddresses(c *vk.Ctx) {
	r := c.Rng
	for rep := 0; rep < c.N(3, 12); rep++ {
		m := service.NewListenerManager()
		pairs := 33 + r.Intn(78)
		var closers []func() error
		for i := 0; len(closers) < pairs; i++ {
			addr := fmt.Sprintf("127.0.0.1:%d", 19000+i)
			if ln, err := m.ListenStream(addr); err == nil {
				closers = append(closers, ln.Close)
			}
			if pc, err := m.ListenPacket(addr); err == nil {
				closers = append(closers, pc.Close)
			}
			if i > 400 {
				break
			}
		}
		concurrent := rep%2 == 1
		var closedN atomic.Int64
		done := make(chan struct{})
		go func() {
			defer close(done)
			if concurrent {
				var wg sync.WaitGroup
				for _, cl := range closers {
					wg.Add(1)
					go func(cl func() error) { defer wg.Done(); c13CloseCall(cl); closedN.Add(1) }(cl)
				}
				wg.Wait()
			} else {
				for _, cl := range closers {
					c13CloseCall(cl)
					closedN.Add(1)
				}
			}
		}()
		select {
		case <-done:
		case <-time.After(20 * time.Second):
			dump := goroutineDump()
			c.Violation("C13/deadlock:"+strings.Join(blockedInListeners(dump), "+"), map[string]any{"phase": "closing every handle of a manager with many addresses, no listen in between", "handles": len(closers), "closes_returned": closedN.Load(), "concurrent": concurrent, "dump_head": dump[:min(len(dump), 5000)]})
			return
		}
		res := make(chan error, 1)
		go func() {
			ln, err := m.ListenStream("127.0.0.1:19000")
			if err == nil {
				ln.Close()
			}
			res <- err
		}()
		select {
		case err := <-res:
			if err != nil {
				c.Violation("C13/manager-unusable-after-round", map[string]any{"phase": "many addresses", "error": err.Error()})
				return
			}
		case <-time.After(20 * time.Second):
			dump := goroutineDump()
			c.Violation("C13/deadlock:"+strings.Join(blockedInListeners(dump), "+"), map[string]any{"phase": "listen after closing many addresses", "dump_head": dump[:min(len(dump), 5000)]})
			return
		}
		c.Count("many_address_teardowns", 1)
		c.Max("max_handles_closed_without_a_listen_between", int64(len(closers)))
		c.Eval(fmt.Sprintf("many-addresses|handles=%s|concurrent=%v", sizeBucket(len(closers)), concurrent))
	}
}

// c13CloseCall is a named frame so that a Close that never returns shows up in the dump.
func c13CloseCall(cl func() error) { cl() }

// c13Forced: hook H3 holds the closer of the last handle right before it calls back into the
// manager; meanwhile listens on the same and on other addresses must complete.
func c13Forced(c *vk.Ctx) {
	for _, kind := range []string{"stream", "packet"} {
		for rep := 0; rep < c.N(10, 40); rep++ {
			m := service.NewListenerManager()
			addr := fmt.Sprintf("127.0.0.1:%d", 18500+rep)
			held := make(chan struct{})
			release := make(chan struct{})
			var once sync.Once
			point := kind + ".lastClose.beforeCallback"
			service.VerifSetPointHook(func(name string) {
				if name == point {
					first := false
					once.Do(func() { first = true })
					if first {
						close(held)
						<-release
					}
				}
			})
			var closeFn func() error
			if kind == "stream" {
				ln, err := m.ListenStream(addr)
				if err != nil {
					c.Inconclusive("forced: " + err.Error())
					service.VerifSetPointHook(nil)
					continue
				}
				closeFn = ln.Close
			} else {
				pc, err := m.ListenPacket(addr)
				if err != nil {
					c.Inconclusive("forced: " + err.Error())
					service.VerifSetPointHook(nil)
					continue
				}
				closeFn = pc.Close
			}
			closed := make(chan struct{})
			go func() { closeFn(); close(closed) }()
			select {
			case <-held:
			case <-time.After(10 * time.Second):
				c.Inconclusive("forced: hook point " + point + " not reached")
				service.VerifSetPointHook(nil)
				continue
			}
			// the last close is parked between releasing the socket and the manager callback
			res := make(chan error, 1)
			go func() {
				var err error
				var cl io.Closer
				if kind == "stream" {
					cl, err = m.ListenStream(addr)
				} else {
					var pc net.PacketConn
					pc, err = m.ListenPacket(addr)
					cl = pc
				}
				if err == nil {
					defer cl.Close()
				}
				res <- err
			}()
			select {
			case err := <-res:
				if err != nil {
					c.Violation("C13/forced/listen-fails-while-last-close-in-progress", map[string]any{"kind": kind, "error": err.Error()})
				}
			case <-time.After(15 * time.Second):
				dump := goroutineDump()
				c.Violation("C13/deadlock:"+strings.Join(blockedInListeners(dump), "+"), map[string]any{"forced": point, "dump_head": dump[:min(len(dump), 4000)]})
				close(release)
				service.VerifSetPointHook(nil)
				return
			}
			close(release)
			select {
			case <-closed:
			case <-time.After(15 * time.Second):
				c.Violation("C13/forced/last-close-never-returns", map[string]any{"kind": kind})
				service.VerifSetPointHook(nil)
				return
			}
			service.VerifSetPointHook(nil)
			// after both: the address must be listenable again through the manager and directly
			var cl io.Closer
			var err error
			if kind == "stream" {
				cl, err = m.ListenStream(addr)
			} else {
				cl, err = m.ListenPacket(addr)
			}
			if err != nil {
				c.Violation("C13/forced/manager-unusable-after-race", map[string]any{"kind": kind, "error": err.Error()})
				return
			}
			cl.Close()
			c.Count("forced_lastclose_vs_listen", 1)
			c.Eval("forced|" + point)
		}
	}
}

func init() {
	vk.Register(&vk.Spec{
		ID:    "C13",
		Level: "exploration",
		Rule: "each case is one round: 2..16 goroutines x 60..150 random ListenStream/ListenPacket/Close operations on 3 addresses (70% on one) + optionally an unbindable address and background dialers, at GOMAXPROCS 1/2/4/16; plus forced schedules (hook H3) that park the closer of the last handle before the manager callback while a listen on the same address runs; teardown of 33..110 (address, kind) pairs with no listen in between; " +
			"class = (goroutine bucket, GOMAXPROCS, unbindable address present) or forced point",
		Assumptions: []string{"a stall is 15 s without any completed operation (normal round: < 100 ms); classification from the goroutine dump"},
		Batches:     func(t string) int { return map[string]int{"quick": 6, "thorough": 32}[t] },
		Parallel:    func(t string) int { return 6 },
		Timeout:     func(t string) time.Duration { return 20 * time.Minute },
		ClassifyHang: func(dump string) (string, bool) {
			if b := blockedInListeners(dump); len(b) > 0 {
				return "C13/deadlock:" + strings.Join(b, "+"), true
			}
			return "", false
		},
		Run: func(c *vk.Ctx) {
			c.Require("ops_completed")
			c.Require("forced_lastclose_vs_listen")
			c.Require("bind_failures_returned")
			c.Require("many_address_teardowns")
			c13Run(c)
		},
	})
}
