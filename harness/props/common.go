// Package props contains one check per property (C01..C20) plus the rigs they share.
package props

import (
	"container/list"
	"encoding/binary"
	"errors"
	"fmt"
	"io"
	"math/rand"
	"net"
	"os"
	"strings"
	"sync"
	"sync/atomic"
	"time"

	"github.com/Jigsaw-Code/outline-sdk/transport/shadowsocks"
	"github.com/Jigsaw-Code/outline-ss-server/service"

	"verifharness/sscodec"
)

var errTimeout = errors.New("timeout")

// ---------- keys ----------

// KeySpec is one configured access key.
type KeySpec struct {
	ID     string `json:"id"`
	Cipher string `json:"cipher"`
	Secret string `json:"secret"`
}

func (k KeySpec) Codec() *sscodec.Key {
	return sscodec.NewKey(sscodec.CipherByName(k.Cipher), k.Secret)
}

func (k KeySpec) Material() string { return k.Cipher + "/" + k.Secret }

var cipherNames = []string{"chacha20-ietf-poly1305", "aes-256-gcm", "aes-192-gcm", "aes-128-gcm"}

// BuildList builds the *list.List of *service.CipherEntry the server API expects.
func BuildList(keys []KeySpec) *list.List {
	l := list.New()
	for _, k := range keys {
		ck, err := shadowsocks.NewEncryptionKey(k.Cipher, k.Secret)
		if err != nil {
			panic(fmt.Sprintf("NewEncryptionKey(%s): %v", k.Cipher, err))
		}
		e := service.MakeCipherEntry(k.ID, ck, k.Secret)
		l.PushBack(&e)
	}
	return l
}

func BuildCipherList(keys []KeySpec) service.CipherList {
	cl := service.NewCipherList()
	cl.Update(BuildList(keys))
	return cl
}

func randSecret(r *rand.Rand) string {
	const a = "abcdefghijklmnopqrstuvwxyzABCDEFGHIJKLMNOPQRSTUVWXYZ0123456789"
	n := 6 + r.Intn(20)
	b := make([]byte, n)
	for i := range b {
		b[i] = a[r.Intn(len(a))]
	}
	return string(b)
}

// RandKeys makes n keys with mixed ciphers; dupFrac of them duplicate the secret of an
// earlier key (same cipher: a true duplicate under another id; or another cipher).
func RandKeys(r *rand.Rand, n int, ciphers []string, dupFrac float64) []KeySpec {
	if len(ciphers) == 0 {
		ciphers = cipherNames
	}
	keys := make([]KeySpec, 0, n)
	for i := 0; i < n; i++ {
		k := KeySpec{ID: fmt.Sprintf("k%d", i), Cipher: ciphers[r.Intn(len(ciphers))], Secret: randSecret(r)}
		if i > 0 && r.Float64() < dupFrac {
			o := keys[r.Intn(len(keys))]
			k.Secret = o.Secret
			if r.Intn(2) == 0 {
				k.Cipher = o.Cipher
			}
		}
		keys = append(keys, k)
	}
	return keys
}

// IDsFor returns the ids configured with exactly this cipher and secret.
func IDsFor(keys []KeySpec, k KeySpec) map[string]bool {
	out := map[string]bool{}
	for _, o := range keys {
		if o.Cipher == k.Cipher && o.Secret == k.Secret {
			out[o.ID] = true
		}
	}
	return out
}

func randBytes(r *rand.Rand, n int) []byte {
	b := make([]byte, n)
	r.Read(b)
	return b
}

// prngStream fills b with a position-dependent stream determined by id, so that any loss,
// duplication or reordering shows up at the first differing offset.
func prngStream(id uint64, off int64, b []byte) {
	for i := range b {
		p := uint64(off + int64(i))
		x := (p/8 + 1) * 0x9E3779B97F4A7C15
		x ^= id * 0xD6E8FEB86659FD93
		x ^= x >> 29
		x *= 0xBF58476D1CE4E5B9
		x ^= x >> 32
		b[i] = byte(x >> (8 * (p % 8)))
	}
}

func makeStream(id uint64, n int) []byte {
	b := make([]byte, n)
	prngStream(id, 0, b)
	return b
}

func firstDiff(a, b []byte) int {
	n := len(a)
	if len(b) < n {
		n = len(b)
	}
	for i := 0; i < n; i++ {
		if a[i] != b[i] {
			return i
		}
	}
	if len(a) != len(b) {
		return n
	}
	return -1
}

// ---------- in-memory stream conn ----------

type strAddr string

func (a strAddr) Network() string { return "tcp" }
func (a strAddr) String() string  { return string(a) }

// memConn is a transport.StreamConn whose input is a fixed byte string.
type memConn struct {
	r      io.Reader
	remote net.Addr
	local  net.Addr
	mu     sync.Mutex
	wrote  []byte
	writes int
	closed bool
}

func (c *memConn) Read(b []byte) (int, error) { return c.r.Read(b) }
func (c *memConn) Write(b []byte) (int, error) {
	c.mu.Lock()
	c.writes++
	c.wrote = append(c.wrote, b...)
	c.mu.Unlock()
	return len(b), nil
}
func (c *memConn) Close() error                       { c.closed = true; return nil }
func (c *memConn) CloseRead() error                   { return nil }
func (c *memConn) CloseWrite() error                  { return nil }
func (c *memConn) LocalAddr() net.Addr                { return c.local }
func (c *memConn) RemoteAddr() net.Addr               { return c.remote }
func (c *memConn) SetDeadline(t time.Time) error      { return nil }
func (c *memConn) SetReadDeadline(t time.Time) error  { return nil }
func (c *memConn) SetWriteDeadline(t time.Time) error { return nil }

// ---------- misc ----------

func sizeBucket(n int) string {
	switch {
	case n == 0:
		return "0"
	case n == 1:
		return "1"
	case n <= 4:
		return "2-4"
	case n <= 16:
		return "5-16"
	case n <= 64:
		return "17-64"
	case n <= 256:
		return "65-256"
	case n <= 1024:
		return "257-1k"
	case n <= 16384:
		return "1k-16k"
	case n <= 65536:
		return "16k-64k"
	default:
		return ">64k"
	}
}

func u64(b []byte) uint64 { return binary.BigEndian.Uint64(b) }

func putU64(v uint64) []byte {
	b := make([]byte, 8)
	binary.BigEndian.PutUint64(b, v)
	return b
}

func isTimeout(err error) bool {
	var ne net.Error
	return errors.As(err, &ne) && ne.Timeout()
}

func isReset(err error) bool {
	return err != nil && (strings.Contains(err.Error(), "connection reset") || strings.Contains(err.Error(), "broken pipe"))
}

var caseCounter atomic.Uint64

// nextID returns a process-unique payload id (batch in the high bits).
func nextID(batch int) uint64 {
	return uint64(batch+1)<<40 | caseCounter.Add(1)
}

func fatalf(format string, a ...any) {
	fmt.Fprintf(os.Stderr, "HARNESS FATAL: "+format+"\n", a...)
	os.Exit(3)
}

func pick[T any](r *rand.Rand, xs []T) T { return xs[r.Intn(len(xs))] }
