package props

import (
	"fmt"
	"net"
	"strconv"
	"time"

	oprom "github.com/Jigsaw-Code/outline-ss-server/prometheus"
	"github.com/prometheus/client_golang/prometheus"

	"verifharness/lab"
	"verifharness/sscodec"
	"verifharness/vk"
)

// c20RealSockets: real connections and datagrams from distinctive lab source addresses through
// the real handlers, with the real collectors tee'd in; then the exposition is scanned.
func c20RealSockets(c *vk.Ctx) {
	lab.MustSetup(c.RunDir)
	r := c.Rng
	hub := StartTargetHub(0)
	defer hub.Close()
	hub.SetDefault(func(tc *TargetConn) {
		buf := make([]byte, 2048)
		tc.SetReadDeadline(time.Now().Add(5 * time.Second))
		n, _ := tc.Read(buf)
		tc.Write(buf[:n])
		tc.Close()
	})
	for round := 0; round < c.N(2, 8); round++ {
		sm, err := oprom.NewServiceMetrics(&fakeDB{})
		if err != nil {
			fatalf("NewServiceMetrics: %v", err)
		}
		reg := prometheus.NewRegistry()
		prometheus.WrapRegistererWithPrefix("shadowsocks_", reg).MustRegister(sm)
		keys := RandKeys(r, 3, nil, 0)
		timeout := 300 * time.Millisecond
		rig := StartTCPRig(keys, TCPRigOpts{Timeout: timeout, Tee: sm, Raw: round%2 == 1})
		urig := StartUDPRig(keys, UDPRigOpts{NatTimeout: 400 * time.Millisecond, Tee: sm})
		var clients []clientEndpoint
		addClient := func(local string) {
			h, p, _ := net.SplitHostPort(local)
			port, _ := strconv.Atoi(p)
			clients = append(clients, clientEndpoint{net.ParseIP(h), port})
		}
		scenarios := []string{"ok", "junk-rst", "junk-timeout", "junk-fin", "bad-address-type", "loopback-destination", "ok-v6-client"}
		for _, sc := range scenarios {
			k := keys[r.Intn(len(keys))]
			ck := k.Codec()
			var src net.IP
			server := rig.Addr4()
			if sc == "ok-v6-client" {
				src = net.ParseIP(fmt.Sprintf("2001:db8:c1::%x", 0x100+r.Intn(0xe00)))
				server = rig.Addr6()
			} else {
				src = net.IPv4(198, 51, 100, byte(20+r.Intn(200)))
			}
			cl, err := DialSS(server, src, k, randBytes(r, ck.C.SaltSize))
			if err != nil {
				c.Inconclusive("c20 dial: " + err.Error())
				continue
			}
			addClient(cl.Local)
			c.Progress("C20 real scenario=%s client=%s", sc, cl.Local)
			caseN := nextID(c.Batch)
			switch sc {
			case "ok", "ok-v6-client":
				cl.WriteRaw(cl.Enc.Encode(append(sscodec.AddrIP(caseIP4(caseN), hub.Port, false), randBytes(r, 100+r.Intn(500))...), nil))
				cl.ReadAllPlain(time.Now().Add(5 * time.Second))
				cl.Conn.Close()
			case "junk-rst":
				cl.WriteRaw(randBytes(r, 60+r.Intn(100)))
				time.Sleep(30 * time.Millisecond)
				cl.Conn.SetLinger(0)
				cl.Conn.Close()
			case "junk-timeout":
				cl.WriteRaw(randBytes(r, 10+r.Intn(30)))
				cl.ReadAllPlain(time.Now().Add(5 * time.Second))
				cl.Conn.Close()
			case "junk-fin":
				cl.WriteRaw(randBytes(r, 70))
				cl.Conn.CloseWrite()
				cl.ReadAllPlain(time.Now().Add(5 * time.Second))
				cl.Conn.Close()
			case "bad-address-type":
				cl.WriteRaw(cl.Enc.Encode([]byte{9, 1, 2, 3, 4, 5, 6, 7, 8, 9}, nil))
				time.Sleep(20 * time.Millisecond)
				cl.Conn.Close()
			case "loopback-destination":
				cl.WriteRaw(cl.Enc.Encode(sscodec.AddrIP(net.IPv4(127, 0, 0, 1), hub.Port, false), nil))
				cl.ReadAllPlain(time.Now().Add(5 * time.Second))
				cl.Conn.Close()
			}
			if _, ok := rig.WaitDone(cl.Local, 10*time.Second); !ok {
				c.Inconclusive("c20: handler did not finish for " + sc)
			}
			c.Count("real_tcp_scenarios", 1)
		}
		// UDP: a few clients, echo target
		tgt, err := NewUDPEnd(net.IPv4(45, 77, 0, 1).To4(), 0)
		if err == nil {
			go func() {
				seen := 0
				for i := 0; i < 200; i++ {
					time.Sleep(5 * time.Millisecond)
					for _, g := range tgt.Snap()[seen:] {
						seen++
						ua, _ := net.ResolveUDPAddr("udp", g.From)
						tgt.Send(g.Data, ua)
					}
				}
			}()
			for i := 0; i < 3; i++ {
				ce, err := NewUDPEnd(net.IPv4(198, 51, 100, byte(30+r.Intn(200))).To4(), 0)
				if err != nil {
					continue
				}
				addClient(ce.Addr.String())
				k := keys[r.Intn(len(keys))]
				ce.Send(ssUDP(k, randBytes(r, k.Codec().C.SaltSize), sscodec.AddrIP(tgt.Addr.IP, tgt.Addr.Port, false), randBytes(r, 50+r.Intn(300))), urig.Addr4())
				ce.Send(randBytes(r, 80), urig.Addr4())
				ce.WaitCount(1, 2*time.Second)
				defer ce.Close()
				c.Count("real_udp_clients", 1)
			}
			time.Sleep(700 * time.Millisecond) // let associations expire so removal paths run
			tgt.Close()
		}
		rig.Close(5 * time.Second)
		urig.Close(5 * time.Second)
		mfs, err := reg.Gather()
		if err != nil {
			c.Violation("C20/gather-error", err.Error())
			return
		}
		leaks, series, _ := scanExposition(mfs, clients)
		c.Eval(fmt.Sprintf("exposure|real-sockets|raw=%v|clients=%d", round%2 == 1, len(clients)))
		c.Count("exposure_series_scanned", int64(series))
		if len(leaks) > 0 {
			c.Violation("C20/client-endpoint-in-metrics", map[string]any{"leaks": leaks[:min(len(leaks), 5)], "phase": "real sockets"})
			return
		}
		// The drain error of the RST probe must be one of the three fixed words.
		for _, mf := range mfs {
			if mf.GetName() != "shadowsocks_tcp_probes" {
				continue
			}
			for _, m := range mf.GetMetric() {
				e := labelsOf(m)["error"]
				if e != "eof" && e != "timeout" && e != "other" {
					c.Violation("C20/probe-error-label-free-text", map[string]any{"error": e})
				}
			}
		}
	}
}
