// Package vk is the verification kernel shared by all property checks:
// per-run context (PRNG, tier, counters, class accounting, samples, violations,
// inconclusive cases), the child/driver protocol and the evidence writer.
package vk

import (
	"encoding/json"
	"fmt"
	"hash/fnv"
	"math/rand"
	"os"
	"sort"
	"sync"
	"time"
)

// Violation is one refuting observation.
type Violation struct {
	Sig    string `json:"sig"`    // normalised signature (oracle name + call site / input class)
	Detail any    `json:"detail"` // witness: the case, the events, the dump
}

// Result is what a child writes when it finishes a batch.
type Result struct {
	Prop         string           `json:"prop"`
	Batch        int              `json:"batch"`
	Seed         int64            `json:"seed"`
	Evaluations  int64            `json:"evaluations"`
	Classes      map[string]int64 `json:"classes"`
	Counters     map[string]int64 `json:"counters"`
	Samples      []any            `json:"samples"`
	Violations   []Violation      `json:"violations"`
	Inconclusive []string         `json:"inconclusive"`
	Notes        []string         `json:"notes"`
	Required     map[string]int64 `json:"required"` // counters that must be > 0 for the run to count
	Done         bool             `json:"done"`
}

// Ctx is handed to a property's batch function.
type Ctx struct {
	Prop   string
	Tier   string
	Seed   int64
	Batch  int
	RunDir string
	Rng    *rand.Rand

	mu  sync.Mutex
	res Result
}

func NewCtx(prop, tier string, seed int64, batch int, runDir string) *Ctx {
	h := fnv.New64a()
	fmt.Fprintf(h, "%s/%d/%d", prop, seed, batch)
	return &Ctx{
		Prop: prop, Tier: tier, Seed: seed, Batch: batch, RunDir: runDir,
		Rng: rand.New(rand.NewSource(int64(h.Sum64()))),
		res: Result{Prop: prop, Batch: batch, Seed: seed, Classes: map[string]int64{}, Counters: map[string]int64{}, Required: map[string]int64{}},
	}
}

func (c *Ctx) Thorough() bool { return c.Tier == "thorough" }

// N picks a size by tier.
func (c *Ctx) N(quick, thorough int) int {
	if c.Thorough() {
		return thorough
	}
	return quick
}

// SubRng derives an independent PRNG (for goroutines; *rand.Rand is not thread-safe).
func (c *Ctx) SubRng(tag string, i int) *rand.Rand {
	h := fnv.New64a()
	fmt.Fprintf(h, "%s/%d/%d/%s/%d", c.Prop, c.Seed, c.Batch, tag, i)
	return rand.New(rand.NewSource(int64(h.Sum64())))
}

// Eval records one judged case belonging to a class (the class descriptor is what
// makes cases "distinct and non-trivial").
func (c *Ctx) Eval(class string) {
	c.mu.Lock()
	c.res.Evaluations++
	c.res.Classes[class]++
	c.mu.Unlock()
}

// EvalN records n judged cases of one class.
func (c *Ctx) EvalN(class string, n int64) {
	c.mu.Lock()
	c.res.Evaluations += n
	c.res.Classes[class] += n
	c.mu.Unlock()
}

func (c *Ctx) Count(name string, n int64) {
	c.mu.Lock()
	c.res.Counters[name] += n
	c.mu.Unlock()
}

// Max keeps the maximum of a counter.
func (c *Ctx) Max(name string, n int64) {
	c.mu.Lock()
	if n > c.res.Counters[name] {
		c.res.Counters[name] = n
	}
	c.mu.Unlock()
}

// Require declares that the counter must be positive at the end of the whole run,
// otherwise the run observed nothing of that kind and is not allowed to pass.
func (c *Ctx) Require(name string) {
	c.mu.Lock()
	c.res.Required[name] = 1
	c.mu.Unlock()
}

func (c *Ctx) Sample(v any) {
	c.mu.Lock()
	if len(c.res.Samples) < 6 {
		c.res.Samples = append(c.res.Samples, v)
	}
	c.mu.Unlock()
}

func (c *Ctx) Violation(sig string, detail any) {
	c.mu.Lock()
	if len(c.res.Violations) < 50 {
		c.res.Violations = append(c.res.Violations, Violation{Sig: sig, Detail: detail})
	}
	c.res.Counters["violations_raw"]++
	c.mu.Unlock()
	fmt.Fprintf(os.Stderr, "[%s b%d] violation %s: %v\n", c.Prop, c.Batch, sig, trunc(fmt.Sprint(detail), 600))
}

func (c *Ctx) Violationf(sig string, format string, a ...any) {
	c.Violation(sig, fmt.Sprintf(format, a...))
}

func (c *Ctx) NViolations() int {
	c.mu.Lock()
	defer c.mu.Unlock()
	return int(c.res.Counters["violations_raw"])
}

func (c *Ctx) Inconclusive(what string) {
	c.mu.Lock()
	if len(c.res.Inconclusive) < 50 {
		c.res.Inconclusive = append(c.res.Inconclusive, what)
	}
	c.res.Counters["inconclusive"]++
	c.mu.Unlock()
}

func (c *Ctx) Note(format string, a ...any) {
	c.mu.Lock()
	if len(c.res.Notes) < 30 {
		c.res.Notes = append(c.res.Notes, fmt.Sprintf(format, a...))
	}
	c.mu.Unlock()
}

// Progress writes the case descriptor to disk before the case is executed, so that a
// crash of the process identifies its input.
func (c *Ctx) Progress(format string, a ...any) {
	f, err := os.OpenFile(c.RunDir+"/progress.log", os.O_APPEND|os.O_CREATE|os.O_WRONLY, 0o644)
	if err != nil {
		return
	}
	fmt.Fprintf(f, "%s "+format+"\n", append([]any{time.Now().Format("15:04:05.000")}, a...)...)
	f.Close()
}

func (c *Ctx) Finish(path string) error {
	c.mu.Lock()
	c.res.Done = true
	b, err := json.Marshal(&c.res)
	c.mu.Unlock()
	if err != nil {
		return err
	}
	return os.WriteFile(path, b, 0o644)
}

func trunc(s string, n int) string {
	if len(s) > n {
		return s[:n] + "…"
	}
	return s
}

// Merge folds b into a.
func Merge(a *Result, b *Result) {
	a.Evaluations += b.Evaluations
	for k, v := range b.Classes {
		a.Classes[k] += v
	}
	for k, v := range b.Counters {
		if len(k) > 4 && k[:4] == "max_" {
			if v > a.Counters[k] {
				a.Counters[k] = v
			}
		} else {
			a.Counters[k] += v
		}
	}
	for k, v := range b.Required {
		a.Required[k] = v
	}
	for _, s := range b.Samples {
		if len(a.Samples) < 8 {
			a.Samples = append(a.Samples, s)
		}
	}
	a.Violations = append(a.Violations, b.Violations...)
	a.Inconclusive = append(a.Inconclusive, b.Inconclusive...)
	for _, n := range b.Notes {
		if len(a.Notes) < 40 {
			a.Notes = append(a.Notes, n)
		}
	}
}

func SortedKeys[V any](m map[string]V) []string {
	ks := make([]string, 0, len(m))
	for k := range m {
		ks = append(ks, k)
	}
	sort.Strings(ks)
	return ks
}
