package vk

import (
	"bufio"
	"context"
	"encoding/json"
	"fmt"
	"os"
	"os/exec"
	"path/filepath"
	"regexp"
	"sort"
	"strconv"
	"strings"
	"sync"
	"syscall"
	"time"
)

// Spec describes one property check.
type Spec struct {
	ID          string
	Level       string // exploration | fault_enumeration
	Rule        string
	Assumptions []string
	Batches     func(tier string) int
	Parallel    func(tier string) int
	Timeout     func(tier string) time.Duration // per-child watchdog
	Run         func(c *Ctx)
	// NoNetns: the child does not need a private network namespace.
	NoNetns bool
	// RacesAreViolations: a race report in a child is a violation of this property (C19).
	RacesAreViolations bool
	// RaceUpgrade lets a check turn particular race reports into violations of its own
	// property (e.g. unsynchronised map access for the no-crash property).
	RaceUpgrade func(report string) (string, bool)
	// ClassifyHang decides what a watchdog expiry means: (signature, true) for a violation,
	// ("", false) for inconclusive. nil means inconclusive.
	ClassifyHang func(dump string) (string, bool)
	// Exhaustive is set in the evidence when the named counter is positive.
	ExhaustiveCounter string
	ExhaustiveMin     int64
}

var registry = map[string]*Spec{}

func Register(s *Spec) { registry[s.ID] = s }

func Lookup(id string) *Spec { return registry[id] }

func IDs() []string { return SortedKeys(registry) }

func verifDir() string {
	if d := os.Getenv("VERIF_DIR"); d != "" {
		return d
	}
	return "/verif"
}

// outDir is where evidence and replay files go (VERIF_OUT redirects them for mutation runs,
// so that a run against a scratch copy never overwrites the evidence of /repo).
func outDir() string {
	if d := os.Getenv("VERIF_OUT"); d != "" {
		return d
	}
	return verifDir()
}

func seedFromEnv() int64 {
	if s := os.Getenv("VERIF_SEED"); s != "" {
		if v, err := strconv.ParseInt(s, 10, 64); err == nil {
			return v
		}
	}
	return 1
}

type childOutcome struct {
	batch    int
	dir      string
	res      *Result
	crashed  bool
	hung     bool
	exitErr  string
	crashSig string
	races    []raceReport
}

type raceReport struct {
	Sig  string `json:"sig"`
	Text string `json:"text"`
}

// Main is the entry point of the verifcheck binary.
func Main(args []string) int {
	if len(args) < 1 {
		fmt.Fprintln(os.Stderr, "usage: verifcheck run <ID> <quick|thorough> [--replay file] | child <ID> <tier> <batch> <dir> | list")
		return 2
	}
	switch args[0] {
	case "list":
		for _, id := range IDs() {
			fmt.Println(id)
		}
		return 0
	case "child":
		return childMain(args[1:])
	case "run":
		return runMain(args[1:])
	}
	fmt.Fprintln(os.Stderr, "unknown command", args[0])
	return 2
}

func childMain(args []string) int {
	if len(args) < 4 {
		return 2
	}
	spec := Lookup(args[0])
	if spec == nil {
		fmt.Fprintln(os.Stderr, "unknown property", args[0])
		return 2
	}
	batch, _ := strconv.Atoi(args[2])
	c := NewCtx(spec.ID, args[1], seedFromEnv(), batch, args[3])
	spec.Run(c)
	if err := c.Finish(filepath.Join(args[3], "result.json")); err != nil {
		fmt.Fprintln(os.Stderr, "cannot write result:", err)
		return 2
	}
	return 0
}

type replayFile struct {
	Property string `json:"property"`
	Tier     string `json:"tier"`
	Seed     int64  `json:"seed"`
	Batch    int    `json:"batch"`
	Sig      string `json:"sig"`
	Detail   any    `json:"detail"`
	LogTail  string `json:"log_tail,omitempty"`
}

func runMain(args []string) int {
	if len(args) < 2 {
		fmt.Fprintln(os.Stderr, "usage: run <ID> <tier> [--replay file]")
		return 2
	}
	id, tier := args[0], args[1]
	spec := Lookup(id)
	if spec == nil {
		fmt.Fprintln(os.Stderr, "unknown property", id)
		return 2
	}
	if tier != "quick" && tier != "thorough" {
		fmt.Fprintln(os.Stderr, "tier must be quick or thorough")
		return 2
	}
	seed := seedFromEnv()
	onlyBatch := -1
	for i := 2; i < len(args); i++ {
		if args[i] == "--replay" && i+1 < len(args) {
			b, err := os.ReadFile(args[i+1])
			if err != nil {
				fmt.Fprintln(os.Stderr, "cannot read replay file:", err)
				return 2
			}
			var rf replayFile
			if err := json.Unmarshal(b, &rf); err != nil {
				fmt.Fprintln(os.Stderr, "bad replay file:", err)
				return 2
			}
			seed, onlyBatch, tier = rf.Seed, rf.Batch, rf.Tier
			os.Setenv("VERIF_SEED", strconv.FormatInt(seed, 10))
		}
	}
	runDir := os.Getenv("VERIF_RUN")
	if runDir == "" {
		d, err := os.MkdirTemp("", "verif-run.")
		if err != nil {
			fmt.Fprintln(os.Stderr, err)
			return 2
		}
		runDir = d
		defer os.RemoveAll(d)
	}
	self, _ := os.Executable()
	start := time.Now()

	nb := spec.Batches(tier)
	par := 1
	if spec.Parallel != nil {
		par = spec.Parallel(tier)
	}
	if par < 1 {
		par = 1
	}
	timeout := 10 * time.Minute
	if spec.Timeout != nil {
		timeout = spec.Timeout(tier)
	}
	batches := []int{}
	for b := 0; b < nb; b++ {
		if onlyBatch < 0 || b == onlyBatch {
			batches = append(batches, b)
		}
	}
	outcomes := make([]*childOutcome, len(batches))
	sem := make(chan struct{}, par)
	var wg sync.WaitGroup
	for i, b := range batches {
		wg.Add(1)
		sem <- struct{}{}
		go func(i, b int) {
			defer wg.Done()
			defer func() { <-sem }()
			outcomes[i] = runChild(self, spec, tier, b, runDir, timeout)
		}(i, b)
	}
	wg.Wait()

	total := &Result{Prop: id, Seed: seed, Classes: map[string]int64{}, Counters: map[string]int64{}, Required: map[string]int64{}}
	type located struct {
		v     Violation
		batch int
		dir   string
	}
	var viols []located
	racesSeen := map[string]raceReport{}
	var harnessRaces []string
	crashed, hung := 0, 0
	for _, o := range outcomes {
		if o.res != nil {
			for _, v := range o.res.Violations {
				viols = append(viols, located{v, o.batch, o.dir})
			}
			o.res.Violations = nil
			Merge(total, o.res)
		}
		for _, r := range o.races {
			if _, ok := racesSeen[r.Sig]; !ok {
				racesSeen[r.Sig] = r
				if spec.RacesAreViolations {
					if strings.Contains(r.Text, "outline-ss-server/") {
						viols = append(viols, located{Violation{Sig: "race:" + r.Sig, Detail: r.Text}, o.batch, o.dir})
					} else {
						harnessRaces = append(harnessRaces, r.Sig)
					}
				} else if spec.RaceUpgrade != nil {
					if sig, bad := spec.RaceUpgrade(r.Text); bad {
						viols = append(viols, located{Violation{Sig: sig, Detail: r.Text}, o.batch, o.dir})
					}
				}
			}
		}
		if o.hung {
			hung++
			dump := readTail(filepath.Join(o.dir, "out.log"), 400000)
			if spec.ClassifyHang != nil {
				if sig, bad := spec.ClassifyHang(dump); bad {
					viols = append(viols, located{Violation{Sig: sig, Detail: "watchdog fired; goroutine dump classified as " + sig}, o.batch, o.dir})
					continue
				}
			}
			total.Inconclusive = append(total.Inconclusive, fmt.Sprintf("batch %d: watchdog (%s) fired; %s", o.batch, timeout, lastProgress(o.dir)))
		} else if o.crashed {
			crashed++
			viols = append(viols, located{Violation{Sig: o.crashSig, Detail: fmt.Sprintf("child process died (%s); last case: %s", o.exitErr, lastProgress(o.dir))}, o.batch, o.dir})
		}
	}

	known := loadKnownFindings(filepath.Join(verifDir(), "KNOWN_FINDINGS.txt"), id)
	os.MkdirAll(filepath.Join(outDir(), "replay"), 0o755)
	nViol := 0
	printedKnown := map[string]bool{}
	for i, lv := range viols {
		if text, ok := known[strings.ReplaceAll(lv.v.Sig, " ", "_")]; ok {
			if !printedKnown[lv.v.Sig] {
				fmt.Printf("KNOWN-FINDING: property=%s %s\n", id, text)
				printedKnown[lv.v.Sig] = true
			}
			continue
		}
		nViol++
		if nViol > 20 {
			continue
		}
		rf := replayFile{Property: id, Tier: tier, Seed: seed, Batch: lv.batch, Sig: lv.v.Sig, Detail: lv.v.Detail, LogTail: readTail(filepath.Join(lv.dir, "out.log"), 60000)}
		path := filepath.Join(outDir(), "replay", fmt.Sprintf("%s-%s-s%d-b%d-%d.json", id, tier, seed, lv.batch, i))
		b, _ := json.MarshalIndent(&rf, "", " ")
		os.WriteFile(path, b, 0o644)
		fmt.Printf("VIOLATION property=%s replay=%s\n", id, path)
		fmt.Printf("  signature: %s\n", lv.v.Sig)
	}

	// Evidence.
	missing := []string{}
	for k := range total.Required {
		if total.Counters[k] <= 0 {
			missing = append(missing, k)
		}
	}
	sort.Strings(missing)
	cov := map[string]any{
		"evaluations":         total.Evaluations,
		"distinct_nontrivial": len(total.Classes),
		"rule":                spec.Rule,
		"samples":             total.Samples,
		"counters":            total.Counters,
		"classes":             topClasses(total.Classes, 60),
		"children_run":        len(batches),
		"children_crashed":    crashed,
		"children_hung":       hung,
		"races_observed":      len(racesSeen),
		"inconclusive":        len(total.Inconclusive),
	}
	if len(total.Inconclusive) > 0 {
		n := len(total.Inconclusive)
		if n > 10 {
			n = 10
		}
		cov["inconclusive_cases"] = total.Inconclusive[:n]
	}
	if len(total.Notes) > 0 {
		cov["notes"] = total.Notes
	}
	if len(racesSeen) > 0 {
		rs := []string{}
		for k := range racesSeen {
			rs = append(rs, k)
		}
		sort.Strings(rs)
		cov["race_signatures"] = rs
	}
	if len(missing) > 0 {
		cov["required_but_unobserved"] = missing
	}
	if spec.ExhaustiveCounter != "" && total.Counters[spec.ExhaustiveCounter] > 0 && total.Counters[spec.ExhaustiveCounter] >= spec.ExhaustiveMin {
		cov["exhaustive"] = true
	}
	if len(total.Samples) == 0 {
		cov["samples"] = []any{"(no sample recorded)"}
	}
	ev := map[string]any{
		"property_id": id,
		"tier":        tier,
		"seed":        seed,
		"level":       spec.Level,
		"coverage":    cov,
		"assumptions": spec.Assumptions,
		"wall_s":      time.Since(start).Seconds(),
		"violations":  nViol,
	}
	if onlyBatch < 0 {
		os.MkdirAll(filepath.Join(outDir(), "evidence"), 0o755)
		b, _ := json.MarshalIndent(ev, "", " ")
		if err := os.WriteFile(filepath.Join(outDir(), "evidence", id+".json"), b, 0o644); err != nil {
			fmt.Fprintln(os.Stderr, "cannot write evidence:", err)
			return 2
		}
	}
	fmt.Printf("%s %s seed=%d: evaluations=%d distinct=%d violations=%d inconclusive=%d races=%d crashed=%d hung=%d wall=%.1fs\n",
		id, tier, seed, total.Evaluations, len(total.Classes), nViol, len(total.Inconclusive), len(racesSeen), crashed, hung, time.Since(start).Seconds())
	for _, k := range SortedKeys(total.Counters) {
		fmt.Printf("  %-40s %d\n", k, total.Counters[k])
	}
	if nViol > 0 {
		return 1
	}
	if len(harnessRaces) > 0 {
		fmt.Printf("BROKEN-CHECK property=%s: race inside the harness itself (no repository frame): %v\n", id, harnessRaces)
		return 2
	}
	if len(missing) > 0 {
		fmt.Printf("BROKEN-CHECK property=%s: nothing observed for %v\n", id, missing)
		return 2
	}
	if total.Evaluations == 0 || len(total.Classes) < 2 {
		fmt.Printf("BROKEN-CHECK property=%s: the run observed nothing (evaluations=%d distinct=%d)\n", id, total.Evaluations, len(total.Classes))
		return 2
	}
	if hung == len(batches) {
		fmt.Printf("BROKEN-CHECK property=%s: every child hit the watchdog (inconclusive)\n", id)
		return 2
	}
	return 0
}

func topClasses(m map[string]int64, n int) map[string]int64 {
	ks := SortedKeys(m)
	sort.SliceStable(ks, func(i, j int) bool { return m[ks[i]] > m[ks[j]] })
	out := map[string]int64{}
	for i, k := range ks {
		if i >= n {
			break
		}
		out[k] = m[k]
	}
	return out
}

func runChild(self string, spec *Spec, tier string, batch int, runDir string, timeout time.Duration) *childOutcome {
	dir := filepath.Join(runDir, fmt.Sprintf("b%03d", batch))
	os.MkdirAll(dir, 0o755)
	o := &childOutcome{batch: batch, dir: dir}
	var cmd *exec.Cmd
	cargs := []string{"child", spec.ID, tier, strconv.Itoa(batch), dir}
	ctx, cancel := context.WithCancel(context.Background())
	defer cancel()
	if spec.NoNetns {
		cmd = exec.CommandContext(ctx, self, cargs...)
	} else {
		cmd = exec.CommandContext(ctx, "unshare", append([]string{"-n", "-m", "--", self}, cargs...)...)
	}
	out, err := os.Create(filepath.Join(dir, "out.log"))
	if err != nil {
		o.crashed, o.exitErr, o.crashSig = true, err.Error(), "crash:harness"
		return o
	}
	defer out.Close()
	cmd.Stdout, cmd.Stderr = out, out
	cmd.Env = append(os.Environ(),
		"GORACE=halt_on_error=0 history_size=4 log_path="+filepath.Join(dir, "race"),
		"GODEBUG=netdns=go",
		"GOTRACEBACK=all",
		"VERIF_CHILD_DIR="+dir,
	)
	cmd.SysProcAttr = &syscall.SysProcAttr{Setpgid: true}
	if err := cmd.Start(); err != nil {
		o.crashed, o.exitErr, o.crashSig = true, err.Error(), "crash:harness-start"
		return o
	}
	done := make(chan error, 1)
	go func() { done <- cmd.Wait() }()
	var werr error
	select {
	case werr = <-done:
	case <-time.After(timeout):
		o.hung = true
		// Ask for a goroutine dump first, then kill the whole group.
		syscall.Kill(-cmd.Process.Pid, syscall.SIGQUIT)
		select {
		case werr = <-done:
		case <-time.After(20 * time.Second):
			syscall.Kill(-cmd.Process.Pid, syscall.SIGKILL)
			werr = <-done
		}
	}
	syscall.Kill(-cmd.Process.Pid, syscall.SIGKILL) // stray grandchildren
	if b, err := os.ReadFile(filepath.Join(dir, "result.json")); err == nil {
		var r Result
		if json.Unmarshal(b, &r) == nil && r.Done {
			o.res = &r
		}
	}
	if o.res == nil && !o.hung {
		o.crashed = true
		if werr != nil {
			o.exitErr = werr.Error()
		} else {
			o.exitErr = "exit 0 without result"
		}
		o.crashSig = "crash:" + crashSignature(filepath.Join(dir, "out.log"))
	}
	o.races = collectRaces(dir)
	return o
}

var reAddr = regexp.MustCompile(`0x[0-9a-f]+|\+0x[0-9a-f]+|goroutine \d+|:\d+`)

func crashSignature(logPath string) string {
	f, err := os.Open(logPath)
	if err != nil {
		return "unknown"
	}
	defer f.Close()
	sc := bufio.NewScanner(f)
	sc.Buffer(make([]byte, 1<<20), 1<<20)
	sig := ""
	for sc.Scan() {
		l := sc.Text()
		if sig == "" && (strings.HasPrefix(l, "panic:") || strings.HasPrefix(l, "fatal error:")) {
			sig = reAddr.ReplaceAllString(l, "")
			if len(sig) > 120 {
				sig = sig[:120]
			}
			continue
		}
		// First in-repo frame after the panic line.
		if sig != "" && strings.Contains(l, "outline-ss-server/") && strings.HasSuffix(strings.TrimSpace(l), ")") {
			fn := strings.TrimSpace(l)
			if i := strings.Index(fn, "("); i > 0 {
				// keep the function path, drop the arguments
				if j := strings.LastIndex(fn, "("); j > 0 {
					fn = fn[:j]
				}
			}
			return sig + " @ " + fn
		}
	}
	if sig == "" {
		return "no-panic-line"
	}
	return sig
}

func collectRaces(dir string) []raceReport {
	files, _ := filepath.Glob(filepath.Join(dir, "race.*"))
	// Children of the child (the real server binary) log to their own files too.
	more, _ := filepath.Glob(filepath.Join(dir, "*", "race.*"))
	files = append(files, more...)
	var out []raceReport
	for _, f := range files {
		b, err := os.ReadFile(f)
		if err != nil {
			continue
		}
		blocks := strings.Split(string(b), "WARNING: DATA RACE")
		for _, blk := range blocks[1:] {
			if i := strings.Index(blk, "=================="); i >= 0 {
				blk = blk[:i]
			}
			out = append(out, raceReport{Sig: raceSignature(blk), Text: trunc("WARNING: DATA RACE"+blk, 6000)})
		}
	}
	return out
}

// raceSignature: the pair of top in-repo (or else top) frames of the two accesses, sorted.
func raceSignature(blk string) string {
	lines := strings.Split(blk, "\n")
	var stacks [][]string
	var cur []string
	inAccess := false
	for _, l := range lines {
		t := strings.TrimSpace(l)
		switch {
		case strings.HasPrefix(t, "Read at") || strings.HasPrefix(t, "Write at") || strings.HasPrefix(t, "Previous read at") || strings.HasPrefix(t, "Previous write at") ||
			strings.HasPrefix(t, "Atomic"):
			if cur != nil {
				stacks = append(stacks, cur)
			}
			cur = []string{}
			inAccess = true
		case strings.HasPrefix(t, "Goroutine "):
			if cur != nil {
				stacks = append(stacks, cur)
				cur = nil
			}
			inAccess = false
		case inAccess && t != "" && !strings.HasPrefix(t, "/") && strings.HasSuffix(t, ")"):
			fn := t
			if j := strings.LastIndex(fn, "("); j > 0 {
				fn = fn[:j]
			}
			cur = append(cur, fn)
		}
	}
	if cur != nil {
		stacks = append(stacks, cur)
	}
	pick := func(st []string) string {
		for _, f := range st {
			if strings.Contains(f, "outline-ss-server/") {
				return f
			}
		}
		if len(st) > 0 {
			return st[0]
		}
		return "?"
	}
	var tops []string
	for _, st := range stacks {
		tops = append(tops, pick(st))
	}
	sort.Strings(tops)
	return strings.Join(tops, " <-> ")
}

func readTail(path string, n int64) string {
	f, err := os.Open(path)
	if err != nil {
		return ""
	}
	defer f.Close()
	st, _ := f.Stat()
	off := int64(0)
	if st.Size() > n {
		off = st.Size() - n
	}
	b := make([]byte, st.Size()-off)
	f.ReadAt(b, off)
	return string(b)
}

func lastProgress(dir string) string {
	t := readTail(filepath.Join(dir, "progress.log"), 2000)
	t = strings.TrimSpace(t)
	if i := strings.LastIndex(t, "\n"); i >= 0 {
		t = t[i+1:]
	}
	if t == "" {
		return "(no case logged)"
	}
	return t
}

// loadKnownFindings returns sig -> text for `finding:` lines of this property.
func loadKnownFindings(path, prop string) map[string]string {
	out := map[string]string{}
	b, err := os.ReadFile(path)
	if err != nil {
		return out
	}
	for _, l := range strings.Split(string(b), "\n") {
		l = strings.TrimSpace(l)
		if !strings.HasPrefix(l, "finding:") {
			continue
		}
		rest := strings.TrimSpace(strings.TrimPrefix(l, "finding:"))
		fields := strings.Fields(rest)
		if len(fields) < 2 || fields[0] != "property="+prop || !strings.HasPrefix(fields[1], "sig=") {
			continue
		}
		sig := strings.TrimPrefix(fields[1], "sig=")
		out[sig] = strings.Join(fields[1:], " ")
	}
	return out
}
