#!/usr/bin/env python3
# tools/gen_seed_prompts.py <wave-dir> : writes one prompt file per property for the seeded-change sub-agents.
# A sub-agent gets only the text of its property, its own scratch worktree and the one-line summaries of the
# ideas already proposed (so that it proposes something new); nothing else from /verif.
import json,glob,sys
wave=sys.argv[1].rstrip('/')
props={json.loads(l)['id']:json.loads(l) for l in open('/verif/properties.jsonl')}
tmpl=open('/verif/tools/seed_prompt.tmpl').read()
for pid,p in props.items():
    wt=wave+'/'+pid
    prop="%s — %s\n\nStatement: %s\n\nQuantifier: %s\n\nCode most relevant: %s\n"%(p['id'],p['title'],p['statement'],p['quantifier']['text'],', '.join(p['anchors']['files']))
    taken=[]
    for f in sorted(glob.glob('/verif/seeded/*/meta.json')):
        m=json.load(open(f))
        if m.get('property')==pid: taken.append('- '+m['summary'][:300])
    open('%s/%s.prompt.txt'%(wave,pid),'w').write(tmpl.replace('@WAVE@',wave).replace('@WT@',wt).replace('@ID@',pid).replace('@PROP@',prop).replace('@TAKEN@','\n'.join(taken) or '- (none)'))
print('ok')
