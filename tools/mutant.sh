#!/bin/bash
# tools/mutant.sh <patch> <Cxx> [tier] : run one check against a scratch copy of /repo with <patch> applied.
# The scratch copy lives under /tmp and is removed afterwards; evidence/replay output goes to a scratch dir too.
set -u
PATCH="$(readlink -f "$1")"; ID="$2"; TIER="${3:-quick}"
HERE="$(cd "$(dirname "$0")/.." && pwd)"
MUT="$(mktemp -d /tmp/verif-mut.XXXXXX)"
trap 'rm -rf "$MUT"' EXIT
mkdir -p "$MUT/repo" "$MUT/out"
( cd /repo && git archive HEAD ) | tar -x -C "$MUT/repo"
# include uncommitted changes of /repo's working tree? no: mutants are relative to HEAD
if [ "${REVERSE:-0}" = 1 ]; then
  ( cd "$MUT/repo" && patch -R -p1 -s < "$PATCH" ) || { echo "patch -R failed"; exit 3; }
else
  ( cd "$MUT/repo" && patch -p1 -s < "$PATCH" ) || { echo "patch failed"; exit 3; }
fi
VERIF_REPO="$MUT/repo" VERIF_OUT="$MUT/out" "$HERE/check" "$ID" "$TIER" > "$MUT/log" 2>&1
RC=$?
grep -E "^(VIOLATION|KNOWN-FINDING|BROKEN-CHECK|  signature)|^C[0-9]+ (quick|thorough)" "$MUT/log" | head -${LINES_MAX:-12}
echo "mutant exit=$RC"
exit $RC
