#!/bin/bash
# tools/reverify_seed.sh <seed-name> : re-runs the author's demonstration of a stored seed against the CURRENT /repo HEAD
# (a later fix: commit may have turned a seeded change into an equivalent one). Prints STILL-VALID / OBSOLETE / BROKEN.
set -u
N="$1"; D="/verif/seeded/$N"
export GOFLAGS=-mod=mod GOPROXY=off GOSUMDB=off GOTOOLCHAIN=local
W="$(mktemp -d /tmp/verif-rev.XXXXXX)"; trap 'rm -rf "$W"' EXIT
mkdir "$W/repo"; ( cd /repo && git archive HEAD ) | tar -x -C "$W/repo"; cd "$W/repo"
CMD=$(python3 -c "import json;m=json.load(open('$D/meta.json'));print(m.get('confirmed',{}).get('demo_cmd') or m.get('demo_cmd',''))")
INSTALL=$(python3 -c "
import json,re
m=json.load(open('$D/meta.json'))
t=str(m.get('demo_install',''))+' '+str(m.get('demo_cmd',''))+' '+str(m.get('confirmed',{}).get('demo_cmd',''))
r=re.search(r'(cmd/outline-ss-server|service|prometheus|ipinfo|net|internal/integration_test)/',t)
print(r.group(1)+'/' if r else 'service/')")
[ -z "$CMD" ] && { echo "$N: NO-DEMO"; exit 0; }
patch -p1 -s < "$D/patch.diff" || { echo "$N: PATCH-FAILS"; exit 1; }
cp "$D"/demo/*.go "$INSTALL" 2>/dev/null
( eval "$CMD" ) > "$W/d1" 2>&1; R1=$?
patch -R -p1 -s < "$D/patch.diff"
( eval "$CMD" ) > "$W/d2" 2>&1; R2=$?
if [ $R1 -ne 0 ] && [ $R2 -eq 0 ]; then echo "$N: STILL-VALID"; elif [ $R1 -eq 0 ] && [ $R2 -eq 0 ]; then echo "$N: OBSOLETE (demo passes with the change on the current HEAD)"; else echo "$N: BROKEN (with change rc=$R1, without rc=$R2)"; tail -3 "$W/d2"; fi
