#!/bin/bash
# tools/run_all.sh [tier] [seed...] : runs every check sequentially; prints one line per run.
cd "$(dirname "$0")/.."
TIER="${1:-quick}"; shift
SEEDS="${*:-1}"
for s in $SEEDS; do for i in $(seq -w 1 20); do
  t0=$(date +%s); out=$(VERIF_SEED=$s ./check C$i $TIER 2>&1); rc=$?
  echo "C$i $TIER seed=$s rc=$rc $(($(date +%s)-t0))s $(echo "$out" | grep -E "^C$i $TIER" | sed 's/.*: //') $(echo "$out" | grep -E 'VIOLATION|BROKEN|signature' | head -3 | tr '\n' ' ')"
done; done
