#!/bin/bash
# quick compile check of the harness
export GOFLAGS=-mod=mod GOPROXY=off GOSUMDB=off GOTOOLCHAIN=local
D=$(mktemp -d /tmp/verif-vet.XXXX); trap 'rm -rf $D' EXIT
cp "$(dirname "$0")/../harness/go.mod" $D/go.mod; cp /repo/go.sum $D/go.sum
cd "$(dirname "$0")/../harness" && gofmt -l . ; go build -tags verif -modfile=$D/go.mod -o /dev/null ./cmd/verifcheck ./cmd/verifsweep 2>&1 | head -30
