#!/bin/bash
# tools/verify_seed.sh <dir-with-_out> <a|b> <dest-name>
# Independently confirms a seeded change: applies to a scratch checkout of /repo HEAD, builds (both tag settings),
# runs the existing suite (must pass), runs the demonstration (must FAIL with the change, PASS without).
# On success stores patch.diff, demo/ and meta.json under /verif/seeded/<dest-name>/.
set -u
SRC="$1"; V="$2"; NAME="$3"
export GOFLAGS=-mod=mod GOPROXY=off GOSUMDB=off GOTOOLCHAIN=local
W="$(mktemp -d /tmp/verif-seed.XXXXXX)"; trap 'rm -rf "$W"' EXIT
mkdir "$W/repo"; ( cd /repo && git archive HEAD ) | tar -x -C "$W/repo"
cd "$W/repo"
META="$SRC/${V}_meta.json"
INSTALL=$(python3 -c "
import json,re
t=json.load(open('$META'))['demo_install']+' '+json.load(open('$META'))['demo_cmd']
m=re.search(r'(cmd/outline-ss-server|service|prometheus|ipinfo|net|internal/integration_test)/',t)
print(m.group(1)+'/' if m else 'service/')")
CMD=$(python3 -c "import json;print(json.load(open('$META'))['demo_cmd'])")
# install demo files
install_demo() {
  case "$INSTALL" in */) D="$INSTALL";; *.go) D="$(dirname "$INSTALL")/";; *) D="$INSTALL/";; esac
  mkdir -p "$W/repo/$D"; cp "$SRC/${V}_demo/"*.go "$W/repo/$D" 2>/dev/null
}
patch -p1 -s < "$SRC/$V.patch" || { echo "$NAME: PATCH-FAILS"; exit 1; }
go build ./... >"$W/b1" 2>&1 && go build -tags verif ./... >"$W/b2" 2>&1 || { echo "$NAME: BUILD-FAILS"; tail -5 "$W/b1" "$W/b2"; exit 1; }
go test -vet=off -count=1 ./service/... ./cmd/... ./prometheus/... ./net/... ./internal/... > "$W/t1" 2>&1 || { echo "$NAME: EXISTING-TESTS-FAIL"; grep -E "^(--- FAIL|FAIL|ok)" "$W/t1" | head; exit 1; }
install_demo
( eval "$CMD" ) > "$W/d1" 2>&1; R1=$?
patch -R -p1 -s < "$SRC/$V.patch"
( eval "$CMD" ) > "$W/d2" 2>&1; R2=$?
if [ $R1 -ne 0 ] && [ $R2 -eq 0 ]; then
  DEST="/verif/seeded/$NAME"; rm -rf "$DEST"; mkdir -p "$DEST/demo"
  cp "$SRC/$V.patch" "$DEST/patch.diff"; cp "$SRC/${V}_demo/"* "$DEST/demo/"
  python3 - "$META" "$DEST/meta.json" "$CMD" <<'PY'
import json,sys
m=json.load(open(sys.argv[1]))
m["confirmed"]={"applied_to":"scratch checkout of /repo HEAD (fixes+hooks)","build":"go build ./... and -tags verif ok","existing_tests":"pass with change","demo_with_change":"fails","demo_without_change":"passes","demo_cmd":sys.argv[3]}
json.dump(m,open(sys.argv[2],"w"),indent=1)
PY
  echo "$NAME: CONFIRMED"
else
  echo "$NAME: NOT-CONFIRMED (demo with change rc=$R1, without rc=$R2)"; tail -5 "$W/d1"; tail -5 "$W/d2"; exit 1
fi
