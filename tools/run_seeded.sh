#!/bin/bash
# tools/run_seeded.sh [seed ...] : runs every seeded change (or the given ones) against the checks listed in seeded/MAP.tsv
# and prints one line per (seed, check): CAUGHT / MISSED with the first signature.
cd "$(dirname "$0")/.."
want="$*"
grep -v '^#' seeded/MAP.tsv | while IFS=$'\t' read -r seed checks; do
  [ -n "$want" ] && ! echo " $want " | grep -q " $seed " && continue
  for chk in $checks; do
    out=$(LINES_MAX=2 tools/mutant.sh seeded/$seed/patch.diff $chk 2>&1)
    rc=$(echo "$out" | grep -o 'mutant exit=[0-9]*' | cut -d= -f2)
    sig=$(echo "$out" | grep -m1 'signature:' | sed 's/ *signature: //' | cut -c1-110)
    if [ "$rc" = 1 ]; then echo "$seed $chk CAUGHT $sig"; else echo "$seed $chk MISSED(rc=$rc) $(echo "$out" | tail -2 | tr '\n' ' ' | cut -c1-160)"; fi
  done
done
