#!/usr/bin/env python3
# Regenerates /verif/MANIFEST.json from the table below (kept in one place so it stays valid).
import json,sys
props=[json.loads(l) for l in open('/verif/properties.jsonl')]
CLAIMED={
 "C01":("exploration","authenticator-level reference oracle (ground truth by construction with an independent codec) over PRNG key lists and histories, forced list-replacement interleavings, concurrent lookups under -race","4.C01"),
 "C02":("exploration","end-to-end byte-stream comparison at client and target sockets with position-dependent payloads, half-close event ordering; relays outliving their listener, handshake storms, target done while the client uploads","4.C02"),
 "C03":("exploration","end-to-end UDP oracle with unique payload ids: target-side arrival iff valid under the right key, client-side decode of every reply (association key, fresh salt, true sender address incl. zoned link-local), metrics-recorder attribution; one handler serving two listeners","4.C03"),
 "C04":("exploration","offline checker over the recorded datagram log with association epochs: one outbound socket per client and epoch, injectivity, unsolicited datagrams delivered to the owner only; slow-reaper fault injection through hook H2; process-level phase on the real binary","4.C04"),
 "C05":("exploration","reference-classifier sweep of the destination validator (exhaustive over IPv4 in the thorough tier), sinks for every forbidden class in an all-addresses-local lab, outbound write log (hook H2) and strace syscall monitor on the real binary (also with --verbose); race reports inside the policy code count as violations","4.C05"),
 "C06":("exploration","client-socket and server-conn-wrapper monitors for bytes written, close kind and close time against the handshake deadline, incl. every address-type value next to the known ones, probe history amid legitimate clients and a service without keys","4.C06"),
 "C07":("exploration","black-box replay-history spec oracle over long Add/Resize histories (incl. the history switched off and on again mid-stream), porcupine linearizability checking of concurrent histories, exactly-one-winner end to end (in-process rigs and the real binary across reloads, services and the legacy format)","4.C07"),
 "C08":("exploration","collection of server salts from real response streams (freshness set, independent decode) and reflection of every recorded server output back as client input, cache on/off; bulk concurrent issuance on one key's generator (pairwise distinct)","4.C08"),
 "C09":("exploration","full (listener, key) matrix against the real binary per PRNG configuration with /metrics attribution deltas; concurrent authentications; race reports on the key list count as violations","4.C09"),
 "C10":("fault_enumeration","reload histories with enumerated fault points against the real binary; /proc socket table, sampled authentication matrix, goroutine creation sites and fd count vs a fresh start; rotated ids, > 1 MiB files, a valid configuration without any listener loaded over a serving one, updates in quick succession, connections held open across the history","4.C10"),
 "C11":("exploration","exchange log with reload windows, /metrics status deltas, exactly-once datagram ids and relay continuity on the real binary with the overlap hook H4; in-process listener close under paused relays; quiet reloads; race reports in the reload machinery count as violations","4.C11"),
 "C12":("exploration","call/return-stamped delivery histories with unique ids, forced interleavings through hook H3, release monitors (rebind, goroutine profile, fd table); back-to-back self-describing datagrams with several concurrent readers per handle","4.C12"),
 "C13":("exploration","concurrent listen/close stress with progress watchdog and goroutine-dump classification of mutex wait cycles, forced last-close-vs-listen schedules, teardown of many addresses; any call that does not return is classified","4.C13"),
 "C14":("exploration","trace checker over the H2 event log of the real outbound sockets (deadlines, writes, reads, closes) combined with client send stamps and the metrics recorder; shutdown and leak audits; H2 injections (slow reaper, slow removal report, failing deadline call); the real binary with -udptimeout under both configuration formats watched through /proc","4.C14"),
 "C15":("exploration","per-connection call-sequence oracle on a recording TCPConnMetrics tee'd into the real collectors, byte counters vs independent socket-side counts, quiescent audit of gathered families; crowds of 280-420 open connections","4.C15"),
 "C16":("exploration","per-datagram report sequence vs the send log, reply reports vs datagrams received, conservation vs target sockets, gathered families vs recorder sums; write-error injection through hook H2; reads on the association socket (H2) vs reports; largest datagrams over IPv4 and IPv6","4.C16"),
 "C17":("exploration","interval-union reference account under a controlled clock (hook H1) incl. up to 33000 simultaneous tunnels of one client, bounds from clock readings under a ticking clock, real handlers feeding real collectors (incl. listener shutdown with an association open)","4.C17"),
 "C18":("exploration","crash/panic monitors (child liveness with pre-logged inputs, capturing slog handler, canary exchanges) under hostile TCP/UDP inputs, then goroutine-profile and fd-table leak audits and shutdown-ordering check; accept-failure bursts, writes straddling an association's expiry (H2)","4.C18"),
 "C19":("exploration","Go race detector over the concurrent rigs of every shared component and the -race server binary under reload storms; linearizability (porcupine) and lost-update audits ride along","4.C19"),
 "C20":("exploration","class-based reference oracle for location labels incl. database call log, exposition scan for client address/port renderings, location labels of every family against the clients' classes","4.C20"),
}
NOTES={
 "default":"held on the executions produced (see evidence); not a proof. Trusted base: Go race detector/runtime, Linux netns loopback networking, the harness codec and oracles.",
}
checks=[]
for p in props:
    i=p["id"]
    if i not in CLAIMED: continue
    lvl,tech,ref=CLAIMED[i]
    checks.append({"property_id":i,"quick_cmd":"./check %s quick"%i,"thorough_cmd":"./check %s thorough"%i,
      "evidence_file":"/verif/evidence/%s.json"%i,"replay_cmd_template":"./check %s --replay {path}"%i,"engine":"verifharness",
      "level_claimed":{"category":lvl,"text":"Runtime monitoring: "+tech+". Passing means the property held on every execution explored by this run (counts and classes in the evidence file).","design_ref":"DESIGN.md section "+ref},
      "level_note":NOTES["default"],"technique":"runtime monitoring: "+tech})
na=[{"property_id":p["id"],"reason":"check under construction (DESIGN.md section 4.%s describes it); not claimed until its monitor runs"%p["id"]} for p in props if p["id"] not in CLAIMED]
m={"version":1,"setup_cmd":"./setup.sh",
 "hooks":{"guard":"verif","enable":"go build -race -tags verif (hook files are //go:build verif; without the tag the hook calls are empty inlinable functions)",
  "baseline_off_cmd":"for m in . ./caddy; do (cd /repo/$m && GOFLAGS=-mod=mod go test -json -vet=off -count=1 -timeout 25m ./...); done",
  "source_commits":["f558240","c289078","fbd7757","6a0942f","e01d385"],"add_only":True},
 "engines":[{"name":"verifharness","path":"/verif/harness","serves_properties":sorted(CLAIMED),"kind_free_text":"Go harness built -race -tags verif against /repo: driver + one child process per batch in a private network namespace; monitors at sockets, metrics interfaces, conn wrappers, goroutine/fd tables; race detector"}],
 "checks":checks,"not_applicable":na,
 "notes":"All checks: ./check <id> <quick|thorough>; VERIF_SEED selects the PRNG seed; --replay <file> re-runs the batch that produced a witness."}
json.dump(m,open('/verif/MANIFEST.json','w'),indent=1)
print(len(checks),"checks claimed;",len(na),"not yet")
