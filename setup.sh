#!/bin/bash
# setup_cmd: verifies the toolchain and the namespace lab, and warms the -race build cache.
set -u
cd "$(dirname "$0")"
export GOFLAGS=-mod=mod GOPROXY=off GOSUMDB=off GOTOOLCHAIN=local CGO_ENABLED=1
go version || exit 1
unshare -n -m true || { echo "unshare -n -m not available"; exit 1; }
RUN="$(mktemp -d /tmp/verif-setup.XXXXXX)"; trap 'rm -rf "$RUN"' EXIT
sed "s#=> /repo#=> ${VERIF_REPO:-/repo}#" harness/go.mod > "$RUN/go.mod"; cp "${VERIF_REPO:-/repo}/go.sum" "$RUN/go.sum"
( cd harness && go build -race -tags verif -modfile="$RUN/go.mod" -o "$RUN/verifcheck" ./cmd/verifcheck ) || exit 1
( cd "${VERIF_REPO:-/repo}" && go build -race -tags verif -o "$RUN/outline-ss-server" ./cmd/outline-ss-server ) || exit 1
"$RUN/verifcheck" list >/dev/null || exit 1
echo "setup ok"
